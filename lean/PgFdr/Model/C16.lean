/-
Model of the skip-if-present / write-to-`.tmp`-then-rename publication used by the two pipeline
steps `update_evidence_from_pout.main` (rescoring merge) and `andromeda2pin.main`, and of the loops
of `pipeline.run_update_evidence` / `pipeline.run_andromeda_to_pin` that call them once per output:

    if os.path.isfile(final): return
    with tsv.get_tsv_writer(final + ".tmp") as writer:      # open(..., "w")
        writer.writerow(...) ...                            # one write per row
                                                            # close on leaving the with block
    os.rename(final + ".tmp", final)

A file system is a map from paths to optional contents; the operations are the ones the launcher
`harness/crash_runner.py` (and `strace`) observe.  A crash is a prefix of the operation sequence,
with the `append` in flight cut at any byte.  Executable, total, Mathlib-free.
-/
namespace PgFdr.C16

abbrev Bytes := List UInt8
abbrev Path := String

/-- a file system: path ↦ content of the regular file at that path, if any -/
abbrev FS := Path → Option Bytes

def FS.set (fs : FS) (p : Path) (v : Option Bytes) : FS := fun q => if q = p then v else fs q

inductive FOp where
  | openTrunc (p : Path)              -- open(p, "w"): create or truncate
  | append (p : Path) (b : Bytes)     -- write(fd of p, b)
  | close (p : Path)
  | rename (src dst : Path)           -- os.rename: atomic replace of dst (assumption on the kernel)
deriving DecidableEq, Repr

def apply (fs : FS) : FOp → FS
  | .openTrunc p => fs.set p (some [])
  | .append p b => fs.set p ((fs p).map (· ++ b))
  | .close _ => fs
  | .rename s d => match fs s with
    | some c => (fs.set d (some c)).set s none
    | none => fs

def run (fs : FS) (ops : List FOp) : FS := ops.foldl apply fs

/-- the temporary name both steps use -/
def tmpOf (final : Path) : Path := final ++ ".tmp"

/-- the step's operations for a complete output written in the given chunks (one per row) -/
def program (final : Path) (chunks : List Bytes) : List FOp :=
  [.openTrunc (tmpOf final)] ++ chunks.map (.append (tmpOf final)) ++ [.close (tmpOf final), .rename (tmpOf final) final]

/-- what one invocation of a step issues in state `fs`: nothing if the final output exists -/
def stepOps (fs : FS) (final : Path) (chunks : List Bytes) : List FOp :=
  if (fs final).isSome then [] else program final chunks

/-- the process dies after `ops` complete operations and, if the next one is an append, after
    `bytes` of its bytes have reached the file -/
structure Crash where
  ops : Nat
  bytes : Nat
deriving DecidableEq, Repr

def partialOp : Option FOp → Nat → List FOp
  | some (.append p b), k => if k = 0 then [] else [.append p (b.take k)]
  | _, _ => []

/-- the operations that took effect before the crash -/
def crashPrefix (ops : List FOp) (c : Crash) : List FOp := ops.take c.ops ++ partialOp ops[c.ops]? c.bytes

/-- what of `ops` takes effect: everything (`none`) or the prefix before the crash -/
def effective (ops : List FOp) : Option Crash → List FOp
  | none => ops
  | some c => crashPrefix ops c

/-- one invocation of a step, run to completion (`none`) or killed (`some crash`) -/
def runStep (fs : FS) (final : Path) (chunks : List Bytes) (c : Option Crash) : FS :=
  run fs (effective (stepOps fs final chunks) c)

/-! ### Several outputs in sequence (the pipeline loops) -/

structure Output where
  final : Path
  chunks : List Bytes
deriving Repr

/-- the operations of one pass over all outputs; each skip test sees the state left by the steps before -/
def jobOps : FS → List Output → List FOp
  | _, [] => []
  | fs, o :: rest =>
    let ops := stepOps fs o.final o.chunks
    ops ++ jobOps (run fs ops) rest

/-- one invocation of the pipeline loop, complete or killed -/
def runJob (fs : FS) (outs : List Output) (c : Option Crash) : FS :=
  run fs (effective (jobOps fs outs) c)

/-- a history of invocations, each complete or killed somewhere -/
def runHistory (fs : FS) (outs : List Output) (hist : List (Option Crash)) : FS :=
  hist.foldl (fun fs c => runJob fs outs c) fs

end PgFdr.C16
