/-
The glue between the pipeline entry points and the command-line tools
(`picked_group_fdr/digestion_params.py: digestion_params_list_to_arg_list`, used by
`pipeline/pipeline.py: run_picked_group_fdr`, `run_merge_pout_remap`, `run_andromeda_to_pin`).

The pipeline functions receive ONE `DigestionParams` object per evidence file and hand them to the tools as
command-line arguments:

    ["--min-length"] + [str(p.min_length) for p in l] + ["--max-length"] + [str(p.max_length) for p in l]
    + ["--cleavages"] + [str(p.cleavages) for p in l] + ["--enzyme"] + [p.enzyme for p in l]
    + ["--digestion"] + [p.digestion for p in l] + ["--special-aas"] + ["".join(p.special_aas) for p in l]

i.e. one value PER FILE for every option, in the order of the list; `methionine_cleavage`, `db` and
`use_hash_key` are not rendered (`--fasta_contains_decoys` is a flag of its own that the pipeline functions
never pass: the parameter sets that arrive in the tool have `db = "concat"`).  The tool parses the values
back with argparse (`nargs="+"`, `type=int` for the three numbers) and `get_digestion_params_list`
(`C09.digestionParamsList` of `Model/C09Maps.lean`: a single value is repeated, lists are zipped, unequal
lengths are refused), builds one digest per parameter set (`C09.pepMaps`) and `parse_evidence_file_multiple`
zips the digests with the evidence files (`pairUpD`).

  * `toArgLists cd ps`   — the argparse namespace the rendered arguments amount to (`cd`: whether
                           `--fasta_contains_decoys` is on the command line next to them)
  * `toArgv ps`          — the tokens themselves (what `digestion_params_list_to_arg_list` returns)
  * `throughGlue cd ps`  — `get_digestion_params_list(parse_args(toArgv ps [+ flag]))`
  * `withDb cd p`        — `p` as it arrives: everything as given, `db` decided by the flag
  * `toolIngest`         — the tool's ingestion for given option lists and FASTA files (`C09.pepMapsFromArgs`, then
                           `ingestFilesCheckedD` over the digests)
  * `ingestViaGlue`      — `toolIngest` on the rendered arguments (= `pipeline.run_picked_group_fdr`)
  * `ingestOwnDigests`   — the i-th file through the digest of the i-th parameter set

Executable, Mathlib-free.
-/
import PgFdr.Model.C10
import PgFdr.Model.C09Maps

namespace PgFdr.C10
open PgFdr.C09 (Params ArgLists MapsErr digestionParamsList)

/-- `"".join(p.special_aas)` -/
def specialArg (p : Params) : String := String.ofList p.special

/-- the argparse namespace `digestion_params_list_to_arg_list(ps)` amounts to: one value per parameter set for
    each of the six options, in list order; `cd` = `--fasta_contains_decoys` is given as well -/
def toArgLists (cd : Bool) (ps : List Params) : ArgLists :=
  { enzyme := ps.map (·.enzyme)
    digestion := ps.map (·.digestion)
    minL := ps.map (·.minL)
    maxL := ps.map (·.maxL)
    mc := ps.map (·.mc)
    special := ps.map specialArg
    containsDecoys := cd }

/-- `digestion_params_list_to_arg_list(ps)`: the tokens, in the order the code concatenates them
    (`str(int)` of a natural number is `toString`) -/
def toArgv (ps : List Params) : List String :=
  ["--min-length"] ++ ps.map (fun p => toString p.minL) ++
  ["--max-length"] ++ ps.map (fun p => toString p.maxL) ++
  ["--cleavages"] ++ ps.map (fun p => toString p.mc) ++
  ["--enzyme"] ++ ps.map (·.enzyme) ++
  ["--digestion"] ++ ps.map (·.digestion) ++
  ["--special-aas"] ++ ps.map specialArg

/-- the parameter sets the tool works with when it is called through the glue -/
def throughGlue (cd : Bool) (ps : List Params) : Except MapsErr (List Params) :=
  digestionParamsList (toArgLists cd ps)

/-- a parameter set as it arrives in the tool: `db` is not rendered, the flag decides it -/
def withDb (cd : Bool) (p : Params) : Params := { p with db := if cd then .target else .concat }

/-- "the object is as `DigestionParams.__init__` left it" (nobody assigned to its attributes afterwards) -/
def Constructed (p : Params) : Prop :=
  ∃ e d mn mx c s b, p = C09.mkParams e d mn mx c s b

inductive GlueErr where
  | params (e : MapsErr)       -- `get_digestion_params_list` refuses the argument lists
  | ingest (e : IngestErr)     -- the ingestion refuses a PEP cell
deriving Repr, DecidableEq

def liftIngest : Except IngestErr (List PepInfo) → Except GlueErr (List PepInfo)
  | .ok l => .ok l
  | .error e => .error (.ingest e)

/-- what `get_peptide_to_protein_map_from_params` returns for one parameter set, as the mapper sees it: the pair
    `(prefix index, sequences)` when sequences were stored (`len(protein_to_seq_map) > 0`, non-specific search),
    the plain dict otherwise -/
def digestOf (res : C09.PMap × C09.SeqMap) : Digest :=
  if res.2.isEmpty then .dict (res.1.map (fun kv => (String.ofList kv.1, kv.2.map String.ofList)))
  else .hashed res.1 res.2

/-- the tool (`picked_group_fdr.main`) run on the evidence `files` with `--fasta` and the digestion options `a`:
    `get_peptide_to_protein_maps_from_args` builds one digest per parameter set, `parse_evidence_files` pairs
    digests and files (`pairUpD`: one digest serves all files, otherwise `zip`) -/
def toolIngest (T : Transforms) (mode : Mode) (a : ArgLists) (geneLevel usePseudo useUniprot : Bool)
    (fasta : List (List C09.Str)) (groups : Option (List (List C09.Str))) (files : List (List RawRow)) :
    Except GlueErr (List PepInfo) :=
  match C09.pepMapsFromArgs a geneLevel usePseudo useUniprot fasta [] groups with
  | .error e => .error (.params e)
  | .ok ms => liftIngest (ingestFilesCheckedD T mode (ms.map digestOf) files)

/-- `pipeline.run_picked_group_fdr(evidence_files, …, fasta_files, digest_params_list, …)`: the tool called with
    the arguments `digestion_params_list_to_arg_list` renders (the pipeline never passes
    `--fasta_contains_decoys`, `--gene_level`, `--fasta_use_uniprot_id`, `--mq_protein_groups`: `cd = false` …) -/
def ingestViaGlue (T : Transforms) (mode : Mode) (cd : Bool) (ps : List Params) (geneLevel usePseudo useUniprot : Bool)
    (fasta : List (List C09.Str)) (groups : Option (List (List C09.Str))) (files : List (List RawRow)) :
    Except GlueErr (List PepInfo) :=
  toolIngest T mode (toArgLists cd ps) geneLevel usePseudo useUniprot fasta groups files

/-- what the property demands of several evidence files each with its own digestion parameters: the i-th file is
    read through the digest of the i-th parameter set (`C09.mapOf` per set), nothing else -/
def ingestOwnDigests (T : Transforms) (mode : Mode) (parse : C09.ParseId) (fasta : List (List C09.Str))
    (groups : Option (List (List C09.Str))) (ps : List Params) (files : List (List RawRow)) :
    Except GlueErr (List PepInfo) :=
  match C09.pepMaps parse fasta groups ps with
  | .error e => .error (.params (.map e))
  | .ok ms => liftIngest (ingestCheckedD T mode ((ms.map digestOf).zip files))

end PgFdr.C10
