/-
Model of `fdr.calc_post_err_prob_cutoff` (picked_group_fdr/fdr.py).

  post_err_prob_cutoff = 1.0; s = 0.0; n = 0
  for p in sorted(finite values):          -- non-finite entries have no influence (property C17)
      s += p; n += 1
      if s / n > level: cutoff = p; break

Executable, Mathlib-free.  PEPs are the exact rationals of the implementation's doubles.
-/
namespace PgFdr.C17

inductive PepVal where
  | nan | inf | fin (q : Rat)

def finites : List PepVal → List Rat
  | [] => []
  | .fin q :: r => q :: finites r
  | _ :: r => finites r

def scan (level : Rat) : Rat → Nat → List Rat → Option Rat
  | _, _, [] => none
  | s, n, a :: r =>
    if (s + a) / ((n + 1 : Nat) : Rat) > level then some a else scan level (s + a) (n + 1) r

def sortAsc (l : List Rat) : List Rat := l.mergeSort (fun a b => decide (a ≤ b))

def cutoff (l : List PepVal) (level : Rat) : Rat := (scan level 0 0 (sortAsc (finites l))).getD 1

def mean (l : List Rat) : Rat := l.sum / (l.length : Rat)

end PgFdr.C17
