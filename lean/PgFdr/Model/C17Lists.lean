/-
C17, second part: WHICH list of PEPs the callers hand to `fdr.calc_post_err_prob_cutoff`
(`PgFdr.C17.cutoff`, Model/C17.lean).

(1) `scoring_strategy.ProteinScoringStrategy.collect_peptide_scores_per_protein`, for EVERY shared-peptide
    setting (discard, razor, and score types containing `with_shared`):

      for peptide, (score, proteins) in peptide_info_list.items():
          proteins = self.filter_proteins(proteins)                    # razor: [argmax]; IndexError on []
          idxs = protein_groups.get_protein_group_idxs(proteins)       # set, -1 for an unknown protein
          if is_missing(idxs) and not suppress: raise                   # set() or {-1}
          if is_missing(idxs): continue
          if not self.use_shared_peptides and is_shared(idxs): continue # len(set) > 1
          for i in idxs: evidence[i].append((score, peptide, proteins)) # one copy PER GROUP …
          if not is_decoy(proteins) and not isnan(score):               # … but ONE PEP per peptide
              post_err_probs.append(score)
      self.peptide_score_cutoff = fdr.calc_post_err_prob_cutoff(post_err_probs, level)

    → `collectPeps`, `collectCutoff`.  Only the PEP list is modelled here (the evidence lists of the discard / razor
    settings are `PgFdr.C05.collectEvidence`); `copies` is the number of groups the peptide is evidence of.

(2) the quantification entry points (`quant/fragpipe.py:add_precursor_quants_multiple`,
    `quant/sage.py:add_precursor_quants_multiple`, `quant/maxquant.py:add_precursor_quants` over several
    evidence / DIA-NN report files): every file contributes the PEPs of its target rows that reach a group,

      post_err_probs_combined = []
      for f in files: …, post_err_probs = add_precursor_quants(f, …); post_err_probs_combined.extend(post_err_probs)

    and `writers/base.py:ProteinGroupsWriter.append_quant_columns` computes ONE cutoff from all of them after
    dropping the match-between-runs (NaN) entries → `filePeps`, `quantPeps`, `writerPeps`, `quantCutoff`.

Executable, total, Mathlib-free.  Reuses `groupIdxs`, `isMissing`, `isShared`, `filterProteins` of Model/C05.
-/
import PgFdr.Model.C05
import PgFdr.Model.C17

namespace PgFdr.C17

deriving instance DecidableEq for PepVal

/-- one scored peptide of the peptide list (dict entry) or one PSM / precursor row of an input file; the score is a
    `PepVal` because match-between-runs rows carry NaN and the caller may be handed `inf` -/
structure Row where
  peptide : String
  score : PepVal
  proteins : List String
deriving DecidableEq

def PepVal.isNan : PepVal → Bool
  | .nan => true
  | _ => false

/-- the peptide supports at least one group under the shared-peptide setting: some protein is in a group, and
    (unless shared peptides are used) all proteins agree on one position (an unknown protein counts as a position of
    its own, as in the code: `len({0, -1}) > 1`) -/
def reaches (groups : List (List String)) (useShared : Bool) (prots : List String) : Bool :=
  let idxs := C05.groupIdxs groups prots
  !C05.isMissing idxs && (useShared || !C05.isShared idxs)

/-- distinct known positions among the listed proteins -/
def knownIdxs (groups : List (List String)) (prots : List String) : List Nat :=
  ((C05.groupIdxs groups prots).filterMap id).eraseDups

/-- the number of groups whose evidence list receives the peptide (0 if it does not reach any) -/
def copies (groups : List (List String)) (useShared : Bool) (prots : List String) : Nat :=
  if reaches groups useShared prots then (knownIdxs groups prots).length else 0

/-- the PEP a row contributes to the list, given the proteins left after `filter_proteins` -/
def pepOfFiltered (groups : List (List String)) (useShared dropNan : Bool) (score : PepVal) (prots : List String) :
    Option PepVal :=
  if reaches groups useShared prots && !isDecoy prots && !(dropNan && score.isNan) then some score else none

/-- one iteration of the loop of `collect_peptide_scores_per_protein`, PEP list only -/
def stepPeps (groups : List (List String)) (rz : Option C05.Razor) (suppress useShared : Bool)
    (acc : List PepVal) (x : Row) : Except C05.Err (List PepVal) :=
  match C05.filterProteins rz x.proteins with
  | .error e => .error e
  | .ok prots =>
    if C05.isMissing (C05.groupIdxs groups prots) && !suppress then .error .unknownProtein
    else
      match pepOfFiltered groups useShared true x.score prots with
      | some v => .ok (acc ++ [v])
      | none => .ok acc

def loopPeps (groups : List (List String)) (rz : Option C05.Razor) (suppress useShared : Bool) :
    List Row → List PepVal → Except C05.Err (List PepVal)
  | [], acc => .ok acc
  | x :: r, acc =>
    match stepPeps groups rz suppress useShared acc x with
    | .error e => .error e
    | .ok acc' => loopPeps groups rz suppress useShared r acc'

/-- the list `collect_peptide_scores_per_protein` hands to `calc_post_err_prob_cutoff` -/
def collectPeps (groups : List (List String)) (pil : List Row) (rz : Option C05.Razor)
    (suppress useShared : Bool) : Except C05.Err (List PepVal) :=
  loopPeps groups rz suppress useShared pil []

/-- `strategy.peptide_score_cutoff` -/
def collectCutoff (groups : List (List String)) (pil : List Row) (rz : Option C05.Razor)
    (suppress useShared : Bool) (level : Rat) : Except C05.Err Rat :=
  match collectPeps groups pil rz suppress useShared with
  | .error e => .error e
  | .ok l => .ok (cutoff l level)

/-- what a row contributes, as a function of the row alone (used by the theorems: on success `collectPeps` is the
    `filterMap` of this function) -/
def pepOf (groups : List (List String)) (rz : Option C05.Razor) (useShared : Bool) (x : Row) : Option PepVal :=
  match C05.filterProteins rz x.proteins with
  | .error _ => none
  | .ok prots => pepOfFiltered groups useShared true x.score prots

/-- "the peptide contributes a PEP" -/
def contributes (groups : List (List String)) (rz : Option C05.Razor) (useShared : Bool) (x : Row) : Bool :=
  (pepOf groups rz useShared x).isSome

/-! ### quantification entry points -/

/-- one file through `quant.*.add_precursor_quants`: the PEPs of the rows that reach a group and are not decoys
    (`useShared = !discard_shared_peptides`; unknown rows are skipped, never an error; NaN rows stay in the list) -/
def filePeps (groups : List (List String)) (useShared : Bool) (rows : List Row) : List PepVal :=
  rows.filterMap (fun x => pepOfFiltered groups useShared false x.score x.proteins)

/-- `post_err_probs_combined`: the per-file lists, concatenated in the order the files were given -/
def quantPeps (groups : List (List String)) (useShared : Bool) (files : List (List Row)) : List PepVal :=
  (files.map (filePeps groups useShared)).flatten

/-- `append_quant_columns`: `[x[0] for x in post_err_probs if not helpers.is_mbr(x[0])]` -/
def writerPeps (l : List PepVal) : List PepVal := l.filter (fun v => !v.isNan)

/-- the cutoff `append_quant_columns` hands to the precursor filter and to every column -/
def writerCutoff (l : List PepVal) (level : Rat) : Rat := cutoff (writerPeps l) level

/-- entry point → writer -/
def quantCutoff (groups : List (List String)) (useShared : Bool) (files : List (List Row)) (level : Rat) : Rat :=
  writerCutoff (quantPeps groups useShared files) level

end PgFdr.C17
