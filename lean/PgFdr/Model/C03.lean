import PgFdr.Model.Basic
import PgFdr.Model.C20
/-
Model of protein grouping (property C03):

  observed_peptides.py  ObservedPeptides.create / generate_protein_groups / _get_superset_proteins
  protein_groups.py     from_observed_peptide_map, merge_groups (on the STALE index), remove_empty_groups
  grouping.py           NoGrouping / SubsetGrouping / PseudoGeneGrouping .group_proteins
  graphs.py             PeptideProteinGraph.create_graph, get_connected_components,
                        ConnectedProteinGraphs.get_connected_proteins

`generate_protein_groups` starts from one singleton group per protein (dict order of
`protein_to_peptides_dict`) and indexes it ONCE; every later `merge_groups(superset, protein)` reads that
stale index, i.e. it addresses a group by the protein that originally owned the position.  The model
keeps exactly that: the state is the list of positions, each tagged with its original owner
(`List (owner × members)`), `slotOf s r` is `protein_groups[protein_to_group_idx_map[r]]`.

Executable, total, Mathlib-free; polymorphic in the identifier types.  `subsetGrouping`, `noGrouping`,
`pseudoGeneGrouping` are the `String` / `PepInfo` instances the driver (and a pipeline model) call.
-/
namespace PgFdr.C03
variable {P Q : Type} [DecidableEq P] [DecidableEq Q]

/-- distinct elements in first-appearance order (dict key order) -/
def firsts {α : Type} [DecidableEq α] : List α → List α
  | [] => []
  | a :: l => a :: (firsts l).filter (fun x => decide (x ≠ a))

/-! ### `ObservedPeptides` -/

/-- the two dictionaries of `ObservedPeptides` -/
structure Obs (P Q : Type) where
  /-- keys of `protein_to_peptides_dict`, in insertion order -/
  keys : List P
  /-- `protein_to_peptides_dict[p]` (one entry per listing of `p`, so duplicates are possible) -/
  pepsOf : P → List Q
  /-- `peptide_to_proteins_dict.get(x, [])` -/
  protsOf : Q → List P

/-- `ObservedPeptides.create(peptide_info_list)` on `[(peptide, proteins)]` in dict order (scores play
    no role in grouping) -/
def create (pil : List (Q × List P)) : Obs P Q where
  keys := firsts (pil.flatMap (·.2))
  pepsOf := fun p => pil.flatMap (fun e => (e.2.filter (· = p)).map (fun _ => e.1))
  protsOf := fun q => match pil.find? (fun e => e.1 = q) with
    | some e => e.2
    | none => []

/-- the loop of `_get_superset_proteins`: intersect the candidates with the protein list of each further
    peptide, stop as soon as exactly one candidate is left -/
def supGo (o : Obs P Q) (cands : List P) : List Q → List P
  | [] => cands
  | x :: xs =>
    let c := cands.filter (fun p => decide (p ∈ o.protsOf x))
    if c.length = 1 then c else supGo o c xs

/-- `_get_superset_proteins(protein_to_peptides_dict[p])` -/
def supersets (o : Obs P Q) (p : P) : List P :=
  match o.pepsOf p with
  | [] => []
  | x :: xs => supGo o (o.protsOf x) xs

/-- stable insertion sort, descending in `key` (Python `sorted(l, key=key, reverse=True)` keeps equal
    elements in their original order) -/
def insertDesc (key : P → Nat) (x : P) : List P → List P
  | [] => [x]
  | y :: ys => if key y ≤ key x then x :: y :: ys else y :: insertDesc key x ys

def sortDesc (key : P → Nat) : List P → List P
  | [] => []
  | x :: xs => insertDesc key x (sortDesc key xs)

/-- candidates ordered by the length of their peptide list -/
def byPeptideCount (o : Obs P Q) (l : List P) : List P := sortDesc (fun x => (o.pepsOf x).length) l

/-- the first ordered candidate other than `p` whose (stale-index) group is non-empty -/
def target (o : Obs P Q) (order : List P → List P) (slots : P → List P) (p : P) : Option P :=
  (order (supersets o p)).find? (fun q => decide (q ≠ p) && !(slots q).isEmpty)

/-- `protein_groups[protein_to_group_idx_map[r]]` for the index built once from the singletons -/
def slotOf (s : List (P × List P)) (r : P) : List P := (s.lookup r).getD []

/-- `merge_groups(q, p)` on the stale index: the position owned by `q` receives the members of the
    position owned by `p`, which becomes `[]` -/
def mergeSlots (s : List (P × List P)) (q p : P) : List (P × List P) :=
  let moved := slotOf s p
  s.map (fun e => if e.1 = p then (e.1, []) else if e.1 = q then (e.1, e.2 ++ moved) else e)

/-- one iteration of the loop of `generate_protein_groups` -/
def stepSlots (o : Obs P Q) (s : List (P × List P)) (p : P) : List (P × List P) :=
  match target o (byPeptideCount o) (slotOf s) p with
  | none => s
  | some q => mergeSlots s q p

/-- `from_observed_peptide_map`: one singleton per protein -/
def initSlots (o : Obs P Q) : List (P × List P) := o.keys.map (fun p => (p, [p]))

/-- the positions after the loop, before `remove_empty_groups` -/
def finalSlots (o : Obs P Q) : List (P × List P) := o.keys.foldl (stepSlots o) (initSlots o)

/-- `remove_empty_groups` -/
def render (s : List (P × List P)) : List (List P) := (s.map (·.2)).filter (fun g => !g.isEmpty)

/-- `ObservedPeptides.generate_protein_groups().protein_groups` -/
def generate (o : Obs P Q) : List (List P) := render (finalSlots o)

/-- `SubsetGrouping().group_proteins(pil).protein_groups` -/
def subsetGroups (pil : List (Q × List P)) : List (List P) := generate (create pil)

/-! ### the same loop on the `ProteinGroups` state machine of `Model/C20.lean`

`generate_protein_groups` literally: `init_from_list` of the singletons, then per protein
`get_protein_group(q, check_idx_valid=False)` and `merge_groups(q, p)` on the index that is never
rebuilt, finally `remove_empty_groups()`.  `Proofs/C03.lean` (`generatePG_eq`) shows that this is the
owner-tagged loop above, position by position. -/

/-- `protein_groups.get_protein_group(q, check_idx_valid=False)` (`[]` where the code would raise) -/
def slotsPG (pg : C20.PG P) (q : P) : List P :=
  match C20.getGroup pg q false with
  | .ok g => g
  | .error _ => []

def pgStep (o : Obs P Q) (pg : C20.PG P) (p : P) : C20.PG P :=
  match target o (byPeptideCount o) (slotsPG pg) p with
  | none => pg
  | some q =>
    match C20.mergeGroups pg q p with
    | .ok pg' => pg'
    | .error _ => pg

/-- the `ProteinGroups` object returned by `generate_protein_groups` -/
def generatePG (o : Obs P Q) : C20.PG P :=
  C20.removeEmpty (o.keys.foldl (pgStep o) (C20.ofList (o.keys.map (fun p => [p]))))

/-! ### `NoGrouping` -/

def noGroupsGo : List P → List P → List (List P)
  | _, [] => []
  | seen, p :: ps => if p ∈ seen then noGroupsGo seen ps else [p] :: noGroupsGo (p :: seen) ps

/-- `NoGrouping().group_proteins(pil).protein_groups`: a singleton per protein, first appearance order -/
def noGroups (pil : List (Q × List P)) : List (List P) := noGroupsGo [] (pil.flatMap (·.2))

/-! ### `PseudoGeneGrouping` -/

/-- nodes of the bipartite graph of `graphs.PeptideProteinGraph`: leading proteins and pseudo-peptides
    (`"peptide:" + ";".join(sorted(leading_proteins))`, represented by the sorted leader list) -/
inductive Node (P : Type) where
  | prot (p : P)
  | pep (leaders : List P)
deriving DecidableEq, Repr

def insertAsc (le : P → P → Bool) (x : P) : List P → List P
  | [] => [x]
  | y :: ys => if le x y then x :: y :: ys else y :: insertAsc le x ys

def sortAsc (le : P → P → Bool) : List P → List P
  | [] => []
  | x :: xs => insertAsc le x (sortAsc le xs)

/-- `sorted(set(l))` -/
def canon (le : P → P → Bool) (l : List P) : List P := sortAsc le (firsts l)

/-- the leading protein of the group containing `p` (`get_protein_group(p)[0]`) -/
def leaderOf (G : List (List P)) (p : P) : Option P := (G.find? (fun g => decide (p ∈ g))).bind List.head?

/-- the pseudo-peptide nodes a leading protein is linked to: one per entry of its peptide list -/
def pseudoNodes (le : P → P → Bool) (o : Obs P Q) (G : List (List P)) (a : P) : List (Node P) :=
  (o.pepsOf a).map (fun x => Node.pep (canon le ((o.protsOf x).filterMap (leaderOf G))))

/-- adjacency of the bipartite graph built by `create_graph` with no identified groups excluded -/
def adj (le : P → P → Bool) (o : Obs P Q) (G : List (List P)) : Node P → List (Node P)
  | .prot a => if a ∈ G.filterMap List.head? then pseudoNodes le o G a else []
  | .pep N => ((G.filterMap List.head?).filter (fun a => decide (Node.pep N ∈ pseudoNodes le o G a))).map Node.prot

def allNodes (le : P → P → Bool) (o : Obs P Q) (G : List (List P)) : List (Node P) :=
  firsts ((G.filterMap List.head?).flatMap (fun a => Node.prot a :: pseudoNodes le o G a))

/-- nodes newly reached in one round -/
def fresh {α : Type} [DecidableEq α] (adj : α → List α) (S : List α) : List α :=
  firsts ((S.flatMap adj).filter (fun x => decide (x ∉ S)))

/-- closure iteration: until nothing new is reached or the fuel runs out -/
def iter {α : Type} [DecidableEq α] (adj : α → List α) : Nat → List α → List α
  | 0, S => S
  | k + 1, S => if fresh adj S = [] then S else iter adj k (S ++ fresh adj S)

/-- `sorted(protein nodes of the connected component of a)` (`_get_protein_nodes`) -/
def componentOf (le : P → P → Bool) (o : Obs P Q) (G : List (List P)) (a : P) : List P :=
  sortAsc le ((iter (adj le o G) (allNodes le o G).length [Node.prot a]).filterMap
    (fun n => match n with | .prot p => some p | .pep _ => none))

/-- `ConnectedProteinGraphs.get_connected_proteins`, one component: merge every other leading protein's
    position into the position of the alphabetically first one -/
def mergeComponent (s : List (P × List P)) : List P → List (P × List P)
  | [] => s
  | l :: rest => rest.foldl (fun s p => mergeSlots s l p) s

/-- `PseudoGeneGrouping().group_proteins(pil).protein_groups` -/
def pseudoGeneGroupsOf (le : P → P → Bool) (o : Obs P Q) : List (List P) :=
  let G := generate o
  let s0 : List (P × List P) := G.filterMap (fun g => g.head?.map (fun a => (a, g)))
  let comps := firsts ((G.filterMap List.head?).map (componentOf le o G))
  render (comps.foldl mergeComponent s0)

def pseudoGeneGroups (le : P → P → Bool) (pil : List (Q × List P)) : List (List P) :=
  pseudoGeneGroupsOf le (create pil)

/-! ### specification vocabulary (used by the statements in `Props/C03.lean`, not by the grouping) -/

/-- the observed peptide set of a protein, as the sub-list of peptide keys (in dict order) listing it -/
def pepSet (pil : List (Q × List P)) (p : P) : List Q := (pil.filter (fun e => decide (p ∈ e.2))).map (·.1)

/-- list inclusion as a Boolean -/
def subsetB (A B : List Q) : Bool := A.all (fun x => decide (x ∈ B))

/-- the distinct inclusion-maximal observed peptide sets -/
def maximalSets (pil : List (Q × List P)) : List (List Q) :=
  let sets := firsts ((firsts (pil.flatMap (·.2))).map (pepSet pil))
  sets.filter (fun A => sets.all (fun B => !subsetB A B || decide (B = A)))

/-! ### the `String` instances -/

def toPairs (pil : List PepInfo) : List (String × List String) := pil.map (fun e => (e.peptide, e.proteins))

/-- Python's `str` order (code points) -/
def strLe (a b : String) : Bool := !decide (b < a)

/-- the returned `ProteinGroups` object (groups, index, validity flag) -/
def subsetGroupingPG (pil : List PepInfo) : C20.PG String := generatePG (create (toPairs pil))
def subsetGrouping (pil : List PepInfo) : List (List String) := subsetGroups (toPairs pil)
def noGrouping (pil : List PepInfo) : List (List String) := noGroups (toPairs pil)
def pseudoGeneGrouping (pil : List PepInfo) : List (List String) := pseudoGeneGroups strLe (toPairs pil)

end PgFdr.C03
