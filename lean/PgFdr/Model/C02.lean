/-
Model of `ProteinCompetitionStrategy.do_competition` and the three shipped strategies
(picked_group_fdr/competition.py), with `ProteinGroupResult._get_peptide_counts`
(picked_group_fdr/results.py) as used by `_select_proteins_for_picked`.

  scores   = map(calculate_score, infos)              -- supplied: exact rationals of the floats
  tuples   = zip(groups, infos, scores, is_obsolete)
  tuples   = filter(len(infos) > 0)
  np.random.shuffle(tuples)                           -- π₁, explicit: y[i] = x[π i]
  tuples   = sorted(tuples, key=(score, not obsolete), reverse=True)     -- stable
  for g in tuples:
      if self._is_protein_seen(g) or is_contaminant(g): continue
      self._add_seen_proteins(self._select_proteins_for_picked(g, infos))
      kept.append(g)
  self.reset()
  np.random.shuffle(kept)                             -- π₂
  kept     = sorted(kept, key=score, reverse=True)    -- stable
  zip(*kept)                                          -- dies on [] : error no_ranked_groups

Executable, total, Mathlib-free.  The seen-set is an explicit state threaded through the calls made
on one strategy object (`competeFrom`, `runCalls`); `doCompetition` is a call on a fresh object.
-/
import PgFdr.Model.Basic

namespace PgFdr.C02

/-! ### the generic greedy pass -/

/-- a competition strategy, abstractly: the identifiers looked up in the seen-set for a group
    (`_is_protein_seen`) and the identifiers added when the group is accepted
    (`_add_seen_proteins ∘ _select_proteins_for_picked`) -/
structure Strategy (G K : Type) where
  key   : G → List K
  marks : G → List K

/-- `_is_protein_seen`: some looked-up identifier is in the seen-set -/
def isSeen {K : Type} [DecidableEq K] (seen : List K) (ks : List K) : Bool :=
  ks.any (fun k => decide (k ∈ seen))

/-- the `for` loop of `do_competition`: the accepted groups, in pass order -/
def pass {G K : Type} [DecidableEq K] (st : Strategy G K) (contam : G → Bool) : List K → List G → List G
  | _, [] => []
  | seen, g :: gs =>
    if isSeen seen (st.key g) || contam g then pass st contam seen gs
    else g :: pass st contam (seen ++ st.marks g) gs

/-- the seen-set after the loop has run over `pre` -/
def seenAfter {G K : Type} [DecidableEq K] (st : Strategy G K) (contam : G → Bool) (seen : List K)
    (pre : List G) : List K :=
  seen ++ (pass st contam seen pre).flatMap st.marks

/-- `np.random.shuffle` as an explicit permutation: `y[i] = x[π i]` -/
def shuffle {α : Type} (x : List α) (π : List Nat) : List α := π.filterMap (fun i => x[i]?)

/-- `π` is a list of positions that `np.random.shuffle` can have applied to a list of length `n` -/
def isPermOfRange (π : List Nat) (n : Nat) : Bool :=
  π.length == n && π.all (fun i => decide (i < n)) && (List.range n).all (fun i => π.contains i)

/-! ### items: a protein group with its evidence and its score -/

/-- one entry of `zip(protein_groups, protein_group_peptide_infos, protein_scores)` -/
structure Item where
  group : List String
  evidence : List Evidence
  score : Rat
deriving DecidableEq, Repr, Inhabited

/-- `helpers.is_obsolete(protein_group)` -/
def Item.obsolete (x : Item) : Bool := isObsolete x.group
/-- `len(x[1]) > 0` -/
def Item.hasEvidence (x : Item) : Bool := !x.evidence.isEmpty
/-- `helpers.is_contaminant(protein_group)` -/
def contam (x : Item) : Bool := isContaminant x.group

/-- first sort, `key = (score, not obsolete)`, `reverse=True`: `a` may stand before `b` -/
def le1 (a b : Item) : Bool :=
  decide (b.score < a.score) || (decide (a.score = b.score) && (!a.obsolete || b.obsolete))

/-- second sort, `key = score`, `reverse=True` -/
def le2 (a b : Item) : Bool := decide (b.score ≤ a.score)

/-! ### `_get_peptide_counts(score_peptide_pairs, 1.01)` -/

/-- Python's `<` on lists of strings -/
def strListLt : List String → List String → Bool
  | [], [] => false
  | [], _ :: _ => true
  | _ :: _, [] => false
  | a :: as, b :: bs => if a < b then true else if b < a then false else strListLt as bs

/-- Python's `<` on the tuples `(post_err_prob, peptide, proteins)` -/
def evLt (a b : Evidence) : Bool :=
  if a.pep < b.pep then true else if b.pep < a.pep then false
  else if a.peptide < b.peptide then true else if b.peptide < a.peptide then false
  else strListLt a.proteins b.proteins

def evInsert (a : Evidence) : List Evidence → List Evidence
  | [] => [a]
  | b :: l => if evLt b a then b :: evInsert a l else a :: b :: l

/-- `sorted(score_peptide_pairs)` (insertion sort; equal tuples are identical, so stability is moot) -/
def evSort : List Evidence → List Evidence
  | [] => []
  | a :: l => evInsert a (evSort l)

/-- `protein_peptide_count[protein] += 1` on an insertion-ordered dict -/
def bump (p : String) : List (String × Nat) → List (String × Nat)
  | [] => [(p, 1)]
  | (q, n) :: r => if q = p then (q, n + 1) :: r else (q, n) :: bump p r

/-- the loop body of `_get_peptide_counts` over the sorted tuples, `break` handled by the caller.
    Counts once per (peptide, protein): a protein that a peptide lists twice counts once (the
    property's reading, "distinct peptides"; the generators never list a protein twice). -/
def countLoop : List String → List (String × Nat) → List Evidence → List (String × Nat)
  | _, counts, [] => counts
  | seenPeps, counts, e :: r =>
    if seenPeps.contains e.peptide then countLoop seenPeps counts r
    else countLoop (e.peptide :: seenPeps) (e.proteins.eraseDups.foldl (fun c p => bump p c) counts) r

/-- `_get_peptide_counts`: distinct-peptide count per protein, over the peptides with PEP ≤ cutoff -/
def peptideCounts (cutoff : Rat) (ev : List Evidence) : List (String × Nat) :=
  countLoop [] [] ((evSort ev).takeWhile (fun e => !decide (cutoff < e.pep)))

/-- `num_unique_peptides_per_protein[p]` on the `defaultdict(int)` -/
def countOf (counts : List (String × Nat)) (p : String) : Nat := (counts.lookup p).getD 0

/-- `max(num_unique_peptides_per_protein.values())` — evaluated after `[p]` has inserted a 0 entry
    for an unlisted member, so it is never taken over an empty dict -/
def maxCount (counts : List (String × Nat)) : Nat := counts.foldl (fun m kv => max m kv.2) 0

inductive Picking where
  | all | majority | leading
deriving DecidableEq, Repr

inductive Mode where
  | picked
  | pickedGroup (p : Picking)
  | classic
deriving DecidableEq, Repr

/-- score cutoff `1.01` of `_select_proteins_for_picked` -/
def pickCutoff : Rat := 101 / 100

/-- leading proteins: members whose distinct-peptide count equals the maximum of the count dict -/
def leading (x : Item) : List String :=
  let c := peptideCounts pickCutoff x.evidence
  x.group.filter (fun p => countOf c p == maxCount c)

/-- majority proteins: members with `count ≥ max / 2` -/
def majority (x : Item) : List String :=
  let c := peptideCounts pickCutoff x.evidence
  x.group.filter (fun p => decide (maxCount c ≤ 2 * countOf c p))

/-- `PickedGroupStrategy._select_proteins_for_picked` -/
def select : Picking → Item → List String
  | .all, x => x.group
  | .majority, x => majority x
  | .leading, x => leading x

/-- `PickedStrategy._get_protein_group_string` -/
def groupString (g : List String) : String := joinWith ";" (g.map cleanProteinId)

/-- the three shipped strategies -/
def strategy : Mode → Strategy Item String
  | .picked => ⟨fun x => [groupString x.group], fun x => [groupString x.group]⟩
  | .pickedGroup p => ⟨fun x => x.group.map cleanProteinId, fun x => (select p x).map cleanProteinId⟩
  | .classic => ⟨fun _ => [], fun _ => []⟩

/-- `self.reset()`: the picked strategies empty their set, `ClassicStrategy.reset` is `pass` -/
def reset : Mode → List String → List String
  | .classic, seen => seen
  | _, _ => []

/-! ### the whole call -/

/-- the groups in pass order (after the first shuffle and sort) -/
def passOrder (items : List Item) (π₁ : List Nat) : List Item :=
  (shuffle (items.filter (·.hasEvidence)) π₁).mergeSort le1

/-- the accepted groups, in pass order, for a strategy object whose seen-set is `seen` -/
def keptFrom (mode : Mode) (seen : List String) (items : List Item) (π₁ : List Nat) : List Item :=
  pass (strategy mode) contam seen (passOrder items π₁)

/-- one call of `do_competition` on a strategy object whose seen-set is `seen`:
    the ranking and the seen-set the object is left with -/
def competeFrom (mode : Mode) (seen : List String) (items : List Item) (π₁ π₂ : List Nat) :
    List Item × List String :=
  let kept := keptFrom mode seen items π₁
  let seen' := reset mode (seenAfter (strategy mode) contam seen (passOrder items π₁))
  ((shuffle kept π₂).mergeSort le2, seen')

/-- `do_competition` on a freshly constructed strategy object -/
def doCompetition (mode : Mode) (items : List Item) (π₁ π₂ : List Nat) : List Item :=
  (competeFrom mode [] items π₁ π₂).1

/-- one recorded call: the zipped input and the two permutations that were applied -/
structure Call where
  items : List Item
  π₁ : List Nat
  π₂ : List Nat

/-- successive calls on ONE strategy object -/
def runCalls (mode : Mode) : List String → List Call → List (List Item) × List String
  | seen, [] => ([], seen)
  | seen, c :: cs =>
    let r := competeFrom mode seen c.items c.π₁ c.π₂
    let rest := runCalls mode r.2 cs
    (r.1 :: rest.1, rest.2)

/-- the recorded permutations fit the lists they were applied to -/
def shufflesFit (mode : Mode) (seen : List String) (c : Call) : Bool :=
  isPermOfRange c.π₁ (c.items.filter (·.hasEvidence)).length &&
  isPermOfRange c.π₂ (keptFrom mode seen c.items c.π₁).length

end PgFdr.C02
