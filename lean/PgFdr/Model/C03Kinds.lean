import PgFdr.Model.C03
import PgFdr.Model.C19
/-
Model of the SECOND argument of `group_proteins(peptide_info_list, mq_protein_groups_file)` (property C03):

  grouping.py   ProteinGroupingStrategyFactory (six names → six classes), the `group_proteins` of each class
                (`RescuedSubsetGrouping` / `RescuedMQNativeGrouping` inherit the first-pass `group_proteins` of
                `SubsetGrouping` / `MQNativeGrouping`)
  methods.py    parse_method_toml: `if use_pseudo_genes: grouping = "pseudo_gene"` BEFORE the factory is asked
  protein_groups.py   ProteinGroups.from_mq_protein_groups_file → init_from_list
  parsers/protein_groups.py   parse_protein_groups_file_single (the protein column; the score column must exist and
                be indexable in every row, its value is not part of the grouping)
  parsers/tsv.py   get_column_index

Only the two MaxQuant-native classes look at the file argument: they return the file's rows VERBATIM (the peptide list
is not consulted: proteins of the peptide list that the file does not mention are in no group, proteins the file
mentions stay grouped whether observed or not, a protein listed in two rows is in two groups) and refuse a falsy
argument.  Every other class never opens it.

The file is taken as the table `csv.reader` yields (header cells, rows of cells): the quoting layer of the csv module
is trusted; the generator writes no quote characters, tabs or line breaks inside cells.  `float(score cell)` of a
non-empty cell is assumed to succeed (generated cells are decimal literals or empty).

Executable, total, Mathlib-free.
-/
namespace PgFdr.C03
variable {P Q : Type} [DecidableEq P] [DecidableEq Q]

/-- the six classes `ProteinGroupingStrategyFactory` can return -/
inductive Kind where
  | no | subset | rescuedSubset | mqNative | rescuedMqNative | pseudoGene
deriving DecidableEq, Repr, Inhabited

/-- `ProteinGroupingStrategyFactory(method)`; `none` = `ValueError("Unknown grouping …")` -/
def Kind.ofName (s : String) : Option Kind :=
  if s == "no" then some .no
  else if s == "subset" then some .subset
  else if s == "rescued_subset" then some .rescuedSubset
  else if s == "mq_native" then some .mqNative
  else if s == "rescued_mq_native" then some .rescuedMqNative
  else if s == "pseudo_gene" then some .pseudoGene
  else none

/-- the class reads `mq_protein_groups_file` in `group_proteins` -/
def Kind.readsFile : Kind → Bool
  | .mqNative => true
  | .rescuedMqNative => true
  | _ => false

/-- the grouping part of `methods.parse_method_toml(name, use_pseudo_genes)`: the TOML file's `grouping` value is
    overwritten by `"pseudo_gene"` when pseudo-genes are requested — whatever it was — and only then handed to the
    factory -/
def configured (usePseudo : Bool) (tomlGrouping : String) : Option Kind :=
  Kind.ofName (if usePseudo then "pseudo_gene" else tomlGrouping)

/-- what the file argument amounts to: `none` = a falsy argument (`None`, `""`); `some (.error e)` = reading the file
    fails with `e`; `some (.ok groups)` = the protein column of its rows -/
abbrev FileArg (P : Type) := Option (Except String (List (List P)))

/-- `ProteinGroupingStrategyFactory(kind).group_proteins(peptide_info_list, mq_protein_groups_file).protein_groups`
    (the first pass of the rescued kinds); `le` = the order `sorted` uses on protein names -/
def groupProteins (le : P → P → Bool) (k : Kind) (pil : List (Q × List P)) (file : FileArg P) :
    Except String (List (List P)) :=
  match k with
  | .no => .ok (noGroups pil)
  | .subset => .ok (subsetGroups pil)
  | .rescuedSubset => .ok (subsetGroups pil)
  | .pseudoGene => .ok (pseudoGeneGroups le pil)
  | .mqNative | .rescuedMqNative =>
    match file with
    | none => .error "missing_mq_protein_groups"
    | some r => r

/-! ### the proteinGroups.txt table -/

/-- what `csv.reader` yields for the file: the header line and the data lines, cell by cell -/
structure Table where
  header : List String
  rows : List (List String)
deriving Repr

/-- `tsv.get_column_index(headers, name)` (not optional): `ValueError("Column … is missing")`, else `headers.index` -/
def columnIndex (headers : List String) (name : String) : Except String Nat :=
  if name ∈ headers then .ok (headers.idxOf name) else .error "missing_column"

/-- `list(map(str.strip, cell.split(";")))` -/
def parseCell (cell : String) : List String :=
  (C19.splitOn ';' cell.toList).map (fun t => String.ofList (C19.stripBoth C19.isSpace t))

/-- the loop of `parse_protein_groups_file_single` over the data rows: `row[protein_col]` and `row[score_col]` are
    both indexed (`IndexError` on a shorter row), the protein cell is split -/
def rowsGroups (pc sc : Nat) : List (List String) → Except String (List (List String))
  | [] => .ok []
  | row :: rest =>
    match row[pc]?, row[sc]? with
    | some cell, some _ =>
      match rowsGroups pc sc rest with
      | .ok gs => .ok (parseCell cell :: gs)
      | .error e => .error e
    | _, _ => .error "short_row"

/-- `[group for group, _ in parse_protein_groups_file_single(file)]`: the score column is looked up first, then the
    protein column -/
def fileGroups (t : Table) : Except String (List (List String)) :=
  match columnIndex t.header "Score" with
  | .error e => .error e
  | .ok sc =>
    match columnIndex t.header "Protein IDs" with
    | .error e => .error e
    | .ok pc => rowsGroups pc sc t.rows

/-- the argument as the harness passes it -/
inductive MqArg where
  /-- `None` / `""` -/
  | absent
  /-- a path at which there is no file -/
  | unreadable
  /-- a path to a file with this content -/
  | table (t : Table)
deriving Repr

def MqArg.toFileArg : MqArg → FileArg String
  | .absent => none
  | .unreadable => some (.error "file_not_found")
  | .table t => some (fileGroups t)

/-- the `String` instance the driver runs -/
def groupProteinsStr (k : Kind) (pil : List PepInfo) (a : MqArg) : Except String (List (List String)) :=
  groupProteins strLe k (toPairs pil) a.toFileArg

/-- the returned `ProteinGroups` object: every class ends in `create_index` on its final list (`init_from_list`,
    `remove_empty_groups`, or `create_index` itself) -/
def groupProteinsObj (k : Kind) (pil : List PepInfo) (a : MqArg) : Except String (C20.PG String) :=
  match groupProteinsStr k pil a with
  | .ok gs => .ok (C20.ofList gs)
  | .error e => .error e

end PgFdr.C03
