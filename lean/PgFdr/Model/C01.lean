/-
Model of `fdr.calculate_protein_fdrs` and `fdr.fdrs_to_qvals` (picked_group_fdr/fdr.py) and of the
decoy predicate it uses (`helpers.is_decoy`, shared: `PgFdr.isDecoy` in Model/Basic.lean).

  num_decoys = num_targets = 0
  for group, score in zip(groups, scores):          -- positional, stops at the shorter list
      if score == -100.0: break                     -- sentinel of do_competition
      if is_decoy(group): num_decoys += 1 else: num_targets += 1
      fdrs.append((num_decoys + 1) / (num_targets + 1))
  if not fdrs: raise Exception(...)                 -- "no_ranked_groups"
  qvals = np.minimum.accumulate(fdrs[::-1])[::-1]   -- reverse, running minimum, reverse

Executable, total, Mathlib-free.  Scores are the exact rationals of the implementation's doubles; the
estimates are exact rationals (the implementation holds their correctly rounded quotients, and the
minimum of correctly rounded quotients is the correctly rounded minimum, so the comparison with the
code is exact after one division per value).
-/
import PgFdr.Model.Basic

namespace PgFdr.C01

/-- `do_competition` marks groups without a score with `-100.0`; `calculate_protein_fdrs` stops there -/
def sentinel : Rat := -100

/-- "a group counts as decoy only if all of its proteins are decoys": `helpers.is_decoy` -/
def isDecoyGroup (g : List String) : Bool := PgFdr.isDecoy g

/-- the ranked groups that enter the estimate: `zip(groups, scores)` up to (excluding) the first
    sentinel score -/
def ranked {G : Type} (groups : List G) (scores : List Rat) : List G :=
  ((groups.zip scores).takeWhile (fun gs => gs.2 != sentinel)).map (·.1)

/-- running `(D+1)/(T+1)` with the counts `d`, `t` seen so far (`fdr.py:21-37`) -/
def fdrs {G : Type} (dec : G → Bool) : List G → Nat → Nat → List Rat
  | [], _, _ => []
  | g :: r, d, t =>
    let d' := if dec g then d + 1 else d
    let t' := if dec g then t else t + 1
    ((d' + 1 : Nat) : Rat) / ((t' + 1 : Nat) : Rat) :: fdrs dec r d' t'

/-- `np.minimum.accumulate` -/
def prefMin : List Rat → List Rat
  | [] => []
  | x :: xs => go x xs
where go (m : Rat) : List Rat → List Rat
  | [] => [m]
  | y :: ys => m :: go (if y ≤ m then y else m) ys

/-- `fdr.fdrs_to_qvals`: reverse, running minimum, reverse -/
def fdrsToQvals (f : List Rat) : List Rat := (prefMin f.reverse).reverse

/-- number of groups satisfying `p` among the first `k+1` ranked groups -/
def countP {G : Type} (p : G → Bool) (r : List G) (k : Nat) : Nat := ((r.take (k + 1)).filter p).length

/-- the decoy-based estimate at (0-based) rank `k`: (decoy groups so far + 1) / (target groups so far + 1) -/
def estimate {G : Type} (dec : G → Bool) (r : List G) (k : Nat) : Rat :=
  ((countP dec r k + 1 : Nat) : Rat) / ((countP (fun g => !dec g) r k + 1 : Nat) : Rat)

/-- `fdr.calculate_protein_fdrs` for an arbitrary decoy predicate: (reported FDR estimates, q-values) -/
def calcFdrsWith {G : Type} (dec : G → Bool) (groups : List G) (scores : List Rat) :
    Except String (List Rat × List Rat) :=
  let r := ranked groups scores
  if r.isEmpty then .error "no_ranked_groups"
  else
    let f := fdrs dec r 0 0
    .ok (f, fdrsToQvals f)

/-- `fdr.calculate_protein_fdrs` (the entrapment estimate, which no shipped path reports, is not modelled) -/
def calcProteinFdrs (groups : List (List String)) (scores : List Rat) :
    Except String (List Rat × List Rat) :=
  calcFdrsWith isDecoyGroup groups scores

end PgFdr.C01
