/-
Model of `ProteinGroupResult._get_peptide_counts`, `ProteinGroupResult.from_protein_group` and
`ProteinGroupResults.from_protein_groups` (picked_group_fdr/results.py:42-109, 209-238).

  _get_peptide_counts(evidence, cutoff):
      for pep, peptide, proteins in sorted(evidence):       -- tuples: (PEP, peptide, proteins), lexicographic
          if pep > cutoff: break
          if peptide not in seen: seen.add(peptide); for protein in <DISTINCT proteins>: count[protein] += 1
  from_protein_group(group, evidence, qval, score, cutoff, keep_all):
      counts = [count[p] for p in group]
      if sum(counts) == 0 and not keep_all: return None
      group, counts = zip(*[(p, n) for p, n in zip(group, counts) if n > 0 or keep_all])   -- ValueError if empty
      best = sorted((pep, peptide) for …)[0][1]                                            -- IndexError if no evidence
      majority = [p for p, n in zip(group, counts) if n >= max(counts) / 2]
      reverse = is_decoy(group); contaminant = is_contaminant(group)                        -- on the LISTED proteins
  from_protein_groups(groups, infos, scores, qvals, cutoff, keep_all):
      for group, evidence, score, qval in zip(groups, infos, scores, qvals):                -- stops at the shortest list
          if is_obsolete(group): continue                                                   -- OBSOLETE__ placeholders (and [])
          row = from_protein_group(...); if row is not None: rows.append(row)

The count loop is the REPAIRED one: property C06 says "a peptide counts once per protein even if that
protein is listed for it repeatedly"; the pinned code iterates the protein list with repetitions
(DESIGN.md §9 item 4, fixes/C06-count-once-per-listed-protein.diff).

Executable, total, Mathlib-free.  PEPs, scores and q-values are exact rationals; the cutoff is
`none` for `float("inf")`.
-/
import PgFdr.Model.Basic

namespace PgFdr.C06

/-- Python's `<` on the tuples `(PEP, peptide, proteins)` (floats, then `str`, then `list[str]`,
    all lexicographic by code point) -/
def evLt (a b : Evidence) : Bool :=
  decide (a.pep < b.pep) ||
    (a.pep == b.pep &&
      (decide (a.peptide < b.peptide) ||
        (a.peptide == b.peptide && decide (a.proteins < b.proteins))))

/-- insertion into an ascending list, in front of the first strictly larger or equal element's
    successor that is not smaller (stable) -/
def insertEv (a : Evidence) : List Evidence → List Evidence
  | [] => [a]
  | b :: l => if evLt b a then b :: insertEv a l else a :: b :: l

/-- `sorted(score_peptide_pairs)` (structural insertion sort; the order is total, so the result is
    the one of any stable sort) -/
def sortEv (l : List Evidence) : List Evidence := l.foldr insertEv []

/-- `post_err_prob > score_cutoff` is false, i.e. the entry is at or below the cutoff -/
def within (cutoff : Option Rat) (e : Evidence) : Bool :=
  match cutoff with
  | none => true
  | some c => decide (e.pep ≤ c)

/-- the loop of `_get_peptide_counts`, specialised to one protein `p`: stop at the first PEP above
    the cutoff, skip peptides already seen, count the peptide once if `p` is listed for it -/
def countLoop (cutoff : Option Rat) (p : String) : List Evidence → List String → Nat
  | [], _ => 0
  | e :: r, seen =>
    if !within cutoff e then 0
    else if e.peptide ∈ seen then countLoop cutoff p r seen
    else (if p ∈ e.proteins then 1 else 0) + countLoop cutoff p r (e.peptide :: seen)

/-- `[num_unique_peptides_per_protein[p] for p in protein_group]` -/
def peptideCounts (cutoff : Option Rat) (info : List Evidence) (group : List String) : List Nat :=
  let s := sortEv info
  group.map (fun p => countLoop cutoff p s [])

/-- Python's `<` on `(PEP, peptide)` -/
def ppLt (a b : Rat × String) : Bool :=
  decide (a.1 < b.1) || (a.1 == b.1 && decide (a.2 < b.2))

/-- `sorted([(p[0], p[1]) for p in peptide_scores])[0]`, `none` for an empty list (`IndexError`) -/
def bestPair : List Evidence → Option (Rat × String)
  | [] => none
  | e :: r =>
    some (r.foldl (fun m x => if ppLt (x.pep, x.peptide) m then (x.pep, x.peptide) else m) (e.pep, e.peptide))

def bestPeptide (info : List Evidence) : Option String := (bestPair info).map (·.2)

/-- `max(peptide_counts_unique)` (of a non-empty list) -/
def maxCount (l : List Nat) : Nat := l.foldl max 0

/-- the nine base fields of a row before joining with ";" -/
structure RowData where
  proteins : List String
  majority : List String
  counts : List Nat
  bestPeptide : String
  numberOfProteins : Nat
  qValue : Rat
  score : Rat
  reverse : Bool
  contaminant : Bool
deriving Repr, DecidableEq, Inhabited

/-- `ProteinGroupResult.from_protein_group`; `.ok none` = `None` (group omitted);
    errors: `empty_group` (`zip(*[])`: `ValueError`), `no_evidence` (`sorted([])[0]`: `IndexError`) -/
def fromProteinGroup (group : List String) (info : List Evidence) (qval score : Rat)
    (cutoff : Option Rat) (keepAll : Bool) : Except String (Option RowData) :=
  let counts := peptideCounts cutoff info group
  if counts.sum == 0 && !keepAll then .ok none
  else
    let kept := (group.zip counts).filter (fun pc => decide (0 < pc.2) || keepAll)
    if kept.isEmpty then .error "empty_group"
    else
      match bestPeptide info with
      | none => .error "no_evidence"
      | some best =>
        let ps := kept.map (·.1)
        let cs := kept.map (·.2)
        .ok (some {
          proteins := ps
          majority := (kept.filter (fun pc => decide (maxCount cs ≤ 2 * pc.2))).map (·.1)
          counts := cs
          bestPeptide := best
          numberOfProteins := ps.length
          qValue := qval
          score := score
          reverse := isDecoy ps
          contaminant := isContaminant ps })

/-- one position of the four-way `zip`: (group, evidence, score, q-value) -/
abbrev Slot := List String × List Evidence × Rat × Rat

/-- the loop of `from_protein_groups` over the zipped positions; the first error aborts -/
def rowsOfSlots (cutoff : Option Rat) (keepAll : Bool) : List Slot → Except String (List RowData)
  | [] => .ok []
  | (g, info, s, q) :: rest =>
    if isObsolete g then rowsOfSlots cutoff keepAll rest
    else
      match fromProteinGroup g info q s cutoff keepAll with
      | .error e => .error e
      | .ok none => rowsOfSlots cutoff keepAll rest
      | .ok (some row) =>
        match rowsOfSlots cutoff keepAll rest with
        | .error e => .error e
        | .ok rows => .ok (row :: rows)

/-- `zip(protein_groups, protein_group_peptide_infos, protein_scores, reported_qvals)` -/
def slots (groups : List (List String)) (infos : List (List Evidence)) (scores qvals : List Rat) :
    List Slot :=
  groups.zip (infos.zip (scores.zip qvals))

/-- `ProteinGroupResults.from_protein_groups` -/
def fromProteinGroups (groups : List (List String)) (infos : List (List Evidence))
    (scores qvals : List Rat) (cutoff : Option Rat) (keepAll : Bool) : Except String (List RowData) :=
  rowsOfSlots cutoff keepAll (slots groups infos scores qvals)

/-- the row as the writer sees it (`ProteinGroupResult` fields, `to_list` order) -/
structure Row where
  proteinIds : String
  majorityProteinIds : String
  peptideCountsUnique : String
  bestPeptide : String
  numberOfProteins : Nat
  qValue : Rat
  score : Rat
  reverse : String
  potentialContaminant : String
deriving Repr, DecidableEq, Inhabited

def flag (b : Bool) : String := if b then "+" else ""

/-- `";".join(...)` of the list-valued fields, `"+"`/`""` flags -/
def render (d : RowData) : Row :=
  { proteinIds := joinWith ";" d.proteins
    majorityProteinIds := joinWith ";" d.majority
    peptideCountsUnique := joinWith ";" (d.counts.map toString)
    bestPeptide := d.bestPeptide
    numberOfProteins := d.numberOfProteins
    qValue := d.qValue
    score := d.score
    reverse := flag d.reverse
    potentialContaminant := flag d.contaminant }

/-! ### specification side (used by the theorems of `Props/C06.lean`, never by the driver) -/

/-- the evidence entries at or below the cutoff whose protein list mentions `p` (membership: a
    protein listed several times for a peptide still gives one entry) -/
def supporting (cutoff : Option Rat) (info : List Evidence) (p : String) : List Evidence :=
  info.filter (fun e => within cutoff e && decide (p ∈ e.proteins))

/-- "its number of distinct such peptides" -/
def distinctCount (cutoff : Option Rat) (info : List Evidence) (p : String) : Nat :=
  ((supporting cutoff info p).map (·.peptide)).eraseDups.length

/-- the hypothesis under which the count is a function of the (peptide, protein) incidences: entries
    of a group's evidence that carry the same peptide mention the same proteins.  Inside the pipeline
    a group's evidence holds every peptide once (it is built from a dict), which implies this
    (`consistent_of_nodup`); `_get_peptide_counts` only looks at a peptide's first occurrence in
    `(PEP, peptide, proteins)` order, so without it the count depends on that order -/
def Consistent (info : List Evidence) : Prop :=
  ∀ e ∈ info, ∀ e' ∈ info, e.peptide = e'.peptide → ∀ p, (p ∈ e.proteins ↔ p ∈ e'.proteins)

end PgFdr.C06
