/-
Model of the method-configuration logic behind `python -m picked_group_fdr --methods …`:

* `methods.parse_method_toml` (methods.py): the four TOML fields are read in the code's order
  (`pickedStrategy` → factory, `scoreType`, `sharedPeptides` (razor appends `" razor"`),
  `ProteinScoringStrategy(desc)`, `grouping` (overridden by `pseudo_gene` for gene-level runs
  that fall back to pseudo-genes) → factory, `label`);
* `ProteinScoringStrategy.__init__` (scoring_strategy.py): substring tests on the score
  description in the code's order — `multPEP` → `bestPEP` → `Andromeda` → `MQ_protein` → else
  `NotImplementedError`; `razor`; `with_shared`; origin `Perc` (remapped iff `remap` ∈ d) →
  `FragPipe` → `Sage` → `DIA-NN` → else MaxQuant (no remapping iff `no_remap` ∈ d);
* the factories `ProteinCompetitionStrategyFactory` / `ProteinGroupingStrategyFactory`
  (unknown names are refused) and the score classes' `can_do_protein_group_rescue` /
  `get_score_column`;
* `score_origin.*.get_evidence_file` (which command-line flag a method reads) and
  `remaps_peptides_to_proteins`, `methods.requires_peptide_to_protein_map`;
* `picked_group_fdr.run_picked_group_fdr / run_method / get_protein_group_results`: all methods
  are parsed first, then the peptide→protein map is demanded if any method needs it, then the
  methods run in order: a method without its input file is skipped with a warning; the score
  `MQ_protein` is refused by the MaxQuant evidence parser (no score column) and, for the other
  four input types, when the first pass asks for its proteinGroups file; native MaxQuant
  grouping without `--mq_protein_groups` and the rescue step for a score that cannot rescue
  are refused (the latter after the first pass); otherwise a table is written;
* `writers.base._get_output_filename`: the file name per method when several methods run.

Executable, Mathlib-free.  Strings are tested through `PgFdr.containsSub` on `List Char`.
-/
import PgFdr.Model.Basic
import PgFdr.Generated.Methods

namespace PgFdr.C18
open PgFdr.Generated (MethodToml)

inductive Score where
  | multPEP | bestPEP | andromeda | mqProtein
deriving DecidableEq, Repr, Inhabited

inductive Origin where
  | perc | percRemap | fragpipe | sage | diann | mq | mqNoRemap
deriving DecidableEq, Repr, Inhabited

inductive Grouping where
  | no | subset | rescuedSubset | mqNative | rescuedMqNative | pseudoGene
deriving DecidableEq, Repr, Inhabited

inductive Picked where
  | picked | pickedGroup | classic
deriving DecidableEq, Repr, Inhabited

/-- the five evidence flags of the command line -/
inductive Input where
  | mq | perc | fragpipe | sage | diann
deriving DecidableEq, Repr, Inhabited

/-- the ways a configuration is refused (each is one deliberate `raise` / warning of the tool) -/
inductive Err where
  /-- `FileNotFoundError("Could not find method …")` -/
  | unknownMethod
  /-- the TOML file lacks one of the five keys (`KeyError`; not a well-typed configuration) -/
  | missingKey (key : String)
  /-- `ValueError("Unknown pickedStrategy …")` of `ProteinCompetitionStrategyFactory` -/
  | unknownPicked
  /-- `NotImplementedError` of `ProteinScoringStrategy.__init__` -/
  | unknownScore
  /-- `ValueError("Unknown pickedStrategy …")` of `ProteinGroupingStrategyFactory` -/
  | unknownGrouping
  /-- `ValueError("No fasta or peptide to protein mapping file detected …")` -/
  | missingFasta
  /-- warning "No evidence input file found, skipping method" (the method writes nothing) -/
  | missingInput
  /-- `ValueError("Column None is missing. Please check your input file.")` of the MaxQuant evidence parser
      (`parsers/maxquant.py`: `get_header_col(score_type.get_score_column(), required=True)`), the only parser
      that demands the column `get_score_column()` names; it is `None` for the score `MQ_protein` -/
  | noScoreColumn
  /-- the score `MQ_protein` on an input whose parser does not demand the score column (Percolator, FragPipe, Sage,
      DIA-NN): `collect_peptide_scores_per_protein` hands over to `MQProteinScore.get_protein_scores_from_file`,
      and `parse_method_toml` never gives that object a proteinGroups file.  REPAIRED behaviour
      (`fixes/C18-mq-protein-score-without-file`): the tool's own `ValueError("The MQ_protein score type reads
      its protein scores from a MaxQuant proteinGroups.txt file, but no such file was given …")`; the shipped
      code dies in `open('')` with `FileNotFoundError: [Errno 2] No such file or directory: ''` -/
  | noProteinScoreFile
  /-- `ValueError("Missing MQ protein groups file input --mq_protein_groups")` -/
  | missingMqProteinGroups
  /-- `NotImplementedError("Cannot do rescue step for other score types than bestPEP")` -/
  | rescueUnsupported
deriving DecidableEq, Repr, Inhabited

def Err.tag : Err → String
  | .unknownMethod => "unknown_method"
  | .missingKey _ => "missing_key"
  | .unknownPicked => "unknown_picked"
  | .unknownScore => "unknown_score"
  | .unknownGrouping => "unknown_grouping"
  | .missingFasta => "missing_fasta"
  | .missingInput => "missing_input"
  | .noScoreColumn => "no_score_column"
  | .noProteinScoreFile => "no_protein_score_file"
  | .missingMqProteinGroups => "missing_mq_protein_groups"
  | .rescueUnsupported => "rescue_unsupported"

/-- Python `sub in d` -/
def has (d sub : String) : Bool := containsSub sub.toList d.toList

/-- `ProteinScoringStrategy.__init__`, first `if` chain -/
def parseScore (d : String) : Option Score :=
  if has d "multPEP" then some .multPEP
  else if has d "bestPEP" then some .bestPEP
  else if has d "Andromeda" then some .andromeda
  else if has d "MQ_protein" then some .mqProtein
  else none

/-- `ProteinScoringStrategy.__init__`, second `if` chain -/
def parseOrigin (d : String) : Origin :=
  if has d "Perc" then (if has d "remap" then .percRemap else .perc)
  else if has d "FragPipe" then .fragpipe
  else if has d "Sage" then .sage
  else if has d "DIA-NN" then .diann
  else if has d "no_remap" then .mqNoRemap
  else .mq

/-- `ProteinGroupingStrategyFactory` -/
def parseGrouping (s : String) : Option Grouping :=
  if s == "no" then some .no
  else if s == "subset" then some .subset
  else if s == "rescued_subset" then some .rescuedSubset
  else if s == "mq_native" then some .mqNative
  else if s == "rescued_mq_native" then some .rescuedMqNative
  else if s == "pseudo_gene" then some .pseudoGene
  else none

/-- `ProteinCompetitionStrategyFactory` -/
def parsePicked (s : String) : Option Picked :=
  if s == "picked" then some .picked
  else if s == "picked_group" then some .pickedGroup
  else if s == "classic" then some .classic
  else none

/-- a parsed `MethodConfig` -/
structure Cfg where
  score : Score
  origin : Origin
  razor : Bool
  withShared : Bool
  grouping : Grouping
  picked : Picked
  label : String
deriving DecidableEq, Repr, Inhabited

/-- the score description handed to `ProteinScoringStrategy` -/
def scoreDescription (scoreType sharedPeptides : String) : String :=
  if sharedPeptides == "razor" then scoreType ++ " razor" else scoreType

/-- `methods.parse_method_toml` on the content of a TOML file (`useGenes` = `use_pseudo_genes`);
    the keys are read, and the factories called, in the code's order -/
def parseMethod (useGenes : Bool) (t : MethodToml) : Except Err Cfg :=
  match t.pickedStrategy with
  | none => .error (.missingKey "pickedStrategy")
  | some pkName =>
  match parsePicked pkName with
  | none => .error .unknownPicked
  | some pk =>
  match t.scoreType with
  | none => .error (.missingKey "scoreType")
  | some st =>
  match t.sharedPeptides with
  | none => .error (.missingKey "sharedPeptides")
  | some sh =>
  match parseScore (scoreDescription st sh) with
  | none => .error .unknownScore
  | some sc =>
  match (if useGenes then some "pseudo_gene" else t.grouping) with
  | none => .error (.missingKey "grouping")
  | some gName =>
  match parseGrouping gName with
  | none => .error .unknownGrouping
  | some g =>
  match t.label with
  | none => .error (.missingKey "label")
  | some lb =>
    .ok { score := sc, origin := parseOrigin (scoreDescription st sh),
          razor := has (scoreDescription st sh) "razor",
          withShared := has (scoreDescription st sh) "with_shared",
          grouping := g, picked := pk, label := lb }

/-- `ProteinScore.can_do_protein_group_rescue` -/
def Score.canRescue : Score → Bool
  | .multPEP => true
  | .bestPEP => true
  | .andromeda => false
  | .mqProtein => false

/-- `get_rescue_steps() == [False, True]` (the `RescuedGrouping` mix-in) -/
def Grouping.rescues : Grouping → Bool
  | .rescuedSubset => true
  | .rescuedMqNative => true
  | _ => false

/-- the grouping reads `--mq_protein_groups` -/
def Grouping.needsMqGroups : Grouping → Bool
  | .mqNative => true
  | .rescuedMqNative => true
  | _ => false

/-- `ScoreOrigin.get_evidence_file`: the command-line flag the method reads -/
def Origin.input : Origin → Input
  | .perc => .perc
  | .percRemap => .perc
  | .fragpipe => .fragpipe
  | .sage => .sage
  | .diann => .diann
  | .mq => .mq
  | .mqNoRemap => .mq

/-- `ScoreOrigin.remaps_peptides_to_proteins` -/
def Origin.remaps : Origin → Bool
  | .percRemap => true
  | .mq => true
  | _ => false

/-- `ScoreOrigin.can_do_quantification` -/
def Origin.canQuantify : Origin → Bool
  | .perc => false
  | .percRemap => false
  | _ => true

def Cfg.input (c : Cfg) : Input := c.origin.input

/-- `ProteinScoringStrategy.get_score_column` -/
def Cfg.scoreColumn (c : Cfg) : Option String :=
  match c.score with
  | .mqProtein => none
  | .andromeda => some "score"
  | _ => if c.input == .perc then some "posterior_error_prob" else some "pep"

/-- one method of `methods.requires_peptide_to_protein_map` -/
def Cfg.needsMap (c : Cfg) : Bool := c.grouping == .pseudoGene || c.origin.remaps

/-- what the command line supplies -/
structure Supplied where
  mq : Bool
  perc : Bool
  fragpipe : Bool
  sage : Bool
  diann : Bool
  /-- `--fasta` or `--peptide_protein_map` -/
  map : Bool
  /-- `--mq_protein_groups` -/
  mqGroups : Bool
deriving DecidableEq, Repr, Inhabited

def Supplied.has (s : Supplied) : Input → Bool
  | .mq => s.mq
  | .perc => s.perc
  | .fragpipe => s.fragpipe
  | .sage => s.sage
  | .diann => s.diann

/-- `run_method` + `get_protein_group_results` for one parsed method on valid input files, in the code's order:
    `ok ()` = a protein-group table is produced.

    1. `run_method`: no evidence file of the method's type → warning, the method is skipped;
    2. `evidence.parse_evidence_files`: ONLY the MaxQuant parser demands the column named by
       `get_score_column()` (`required=True`); the Percolator / FragPipe / Sage parsers merely compare the name with
       `"posterior_error_prob"` / `"pep"` and read their search-engine score column otherwise, the DIA-NN parser
       does not look at it.  So `MQ_protein` (column `None`) is refused here for MaxQuant input and parses for the
       other four; `Andromeda` (column `"score"`) parses for all five;
    3. `grouping_strategy.group_proteins`: MaxQuant's own grouping without `--mq_protein_groups` is refused;
    4. first pass of the rescue loop, `collect_peptide_scores_per_protein`: `MQ_protein` asks its score object for
       the proteinGroups file, which `parse_method_toml` never supplies (repaired: the tool's own error; shipped
       code: `FileNotFoundError ''`, the C18 finding) — also when `--mq_protein_groups` was given;
    5. second pass (groupings with a rescue step): refused unless the score can rescue. -/
def runMethod (s : Supplied) (c : Cfg) : Except Err Unit :=
  if !s.has c.input then .error .missingInput
  else if c.input == .mq && c.scoreColumn.isNone then .error .noScoreColumn
  else if c.grouping.needsMqGroups && !s.mqGroups then .error .missingMqProteinGroups
  else if c.scoreColumn.isNone then .error .noProteinScoreFile
  else if c.grouping.rescues && !c.score.canRescue then .error .rescueUnsupported
  else .ok ()

/-- one step of the method loop -/
inductive Outcome where
  /-- a table was written -/
  | table
  /-- the method was skipped with the warning (no input file of its type) -/
  | skipped
  /-- the run ended here with the tool's error -/
  | abort (e : Err)
deriving DecidableEq, Repr, Inhabited

/-- the loop over the parsed methods: a skipped method does not stop the run, an error does -/
def runLoop (s : Supplied) : List Cfg → List Outcome
  | [] => []
  | c :: r =>
    match runMethod s c with
    | .ok () => .table :: runLoop s r
    | .error .missingInput => .skipped :: runLoop s r
    | .error e => [.abort e]

/-- a value of `--methods`: the name of a built-in file, or the content of a custom TOML file
    given by path -/
inductive MethodRef where
  | builtin (name : String)
  | custom (t : MethodToml)
deriving Repr

/-- look-up of a built-in method by name (`methods/<name>.toml`) -/
def findMethod (table : List MethodToml) (name : String) : Except Err MethodToml :=
  match table.find? (fun m => m.name == name) with
  | some m => .ok m
  | none => .error .unknownMethod

def resolve (table : List MethodToml) : MethodRef → Except Err MethodToml
  | .builtin n => findMethod table n
  | .custom t => .ok t

/-- `methods.get_methods`: the methods are located and parsed one after the other; the first
    failure ends the run before anything is read -/
def parseAll (table : List MethodToml) (useGenes : Bool) : List MethodRef → Except Err (List Cfg)
  | [] => .ok []
  | m :: r =>
    match resolve table m with
    | .error e => .error e
    | .ok t =>
      match parseMethod useGenes t with
      | .error e => .error e
      | .ok c =>
        match parseAll table useGenes r with
        | .error e => .error e
        | .ok cs => .ok (c :: cs)

/-- `run_picked_group_fdr`: parse every method, demand the peptide→protein map if some method
    needs it, run the loop -/
def runCli (table : List MethodToml) (useGenes : Bool) (s : Supplied) (ms : List MethodRef) :
    Except Err (List Cfg × List Outcome) :=
  match parseAll table useGenes ms with
  | .error e => .error e
  | .ok cfgs =>
    if cfgs.any Cfg.needsMap && !s.map then .error .missingFasta
    else .ok (cfgs, runLoop s cfgs)

/-- ASCII `str.lower` (labels of the shipped files are ASCII; checked by the correspondence) -/
def lowerAscii (s : String) : String := String.ofList (s.toList.map Char.toLower)

/-- `writers.base._get_output_filename` for `stem` + `suffix` of `--protein_groups_out`:
    the label, lower-cased, spaces replaced by `_`, is appended when several methods run.
    (The directory part of the path is dropped by the code in that case.) -/
def outputName (several : Bool) (stem suffix : String) (c : Cfg) : String :=
  if several then stem ++ "_" ++ strReplace (lowerAscii c.label) " " "_" ++ suffix
  else stem ++ suffix

/-- a shipped method is usable: it parses, its rescue step (if any) is possible for its score,
    it has an evidence column, and it reads one of the five supported inputs without needing a
    MaxQuant proteinGroups file -/
def usable (t : MethodToml) : Bool :=
  match parseMethod false t with
  | .error _ => false
  | .ok c => (!c.grouping.rescues || c.score.canRescue) && c.scoreColumn.isSome &&
      !c.grouping.needsMqGroups

/-- the supply that matches one method: its own evidence type and a FASTA file -/
def matching (c : Cfg) : Supplied :=
  { mq := c.input == .mq, perc := c.input == .perc, fragpipe := c.input == .fragpipe,
    sage := c.input == .sage, diann := c.input == .diann, map := true, mqGroups := false }

end PgFdr.C18
