/-
Model of evidence ingestion (property C10):

  helpers.remove_modifications                 two regex passes + removal of ')'
  parsers/{maxquant,percolator,fragpipe,sage,diann}.py   the per-format row functions
  parsers/psm.py get_peptide_to_protein_mapper  remap through the digest map / proteins of the file,
                                                unknown peptides skipped, decoys purged from target lists
  parsers/psm.py parse_evidence_file_multiple   pairing of files with their digest maps
  parsers/evidence.py parse_evidence_files      left fold: NaN skipped, strictly better score wins

Executable, total, Mathlib-free.  Scores are the exact rationals of the implementation's doubles;
a PSM score `none` is a PEP that can never enter the result (NaN, or +inf).  The two numeric
transforms (FragPipe, Sage) are a parameter `Transforms`; the executable instance `exactT` computes
them exactly in `Rat` (IEEE `+` and the platform `pow` are the correctly rounded images on the
generated grid — checked by the harness).

All 27 shipped methods are modelled.  Razor methods (`sharedPeptides = "razor"`, score description
`… razor`) ingest like the others — the razor decision is taken later, in
`collect_peptide_scores_per_protein` (property C05) — with ONE difference: `parse_mq_evidence_file`
reads the protein cell from the column `Leading razor protein` instead of `Leading proteins`
(`Mode.razor`, `rowProteinsOf`).  The other parsers do not look at `use_razor`.

Text of the PEP cell (`Cell`): where the code converts a cell that is no float literal it raises;
`ingestChecked` returns `badScoreCell` exactly there (`fileRaises`): Percolator / FragPipe / Sage call
`float(row[score_col])` on every row before the mapper (empty cell included); MaxQuant converts only
rows that survive the mapper and reads the empty cell as NaN; DIA-NN goes through pandas (empty = NaN;
one non-numeric cell turns the whole column into text and `np.isnan` raises on the first PSM with a
non-missing cell).  `inf` / `-inf` are float literals: a PEP of +inf never enters the result
(`inf >= d.get(p, [inf])[0]`); a PEP of −inf would be stored, which `PepInfo.pep : Rat` cannot hold —
`ingestChecked` refuses it as `negInfPep` (outside the model, never generated).

Digests of non-specific searches (`--enzyme no_enzyme` / `--digestion none`, `use_hash_key`): the object handed to
`digest.get_proteins` is then the pair (6-residue prefix -> proteins, protein -> sequence).  `Digest` is
either kind of object, `Digest.lookup` is `digest.get_proteins` on it (`hashLookup`: the proteins listed
under the prefix whose stored sequence contains the peptide, `sorted`), and `ingestFilesCheckedD` is
ingestion over a list of such objects (section "digests of non-specific searches" below; the functions
over plain dicts above are untouched and are the special case `Digest.dict`, `Props/C10.lean`
`digest_dicts_agree`).  The pair as the code BUILDS it is `C09.fromParams` (Model/C09.lean).
-/
import PgFdr.Model.Basic
import PgFdr.Model.C09
import PgFdr.Generated.Methods

namespace PgFdr.C10

/-! ## strings -/

/-- `re.sub(o [^c]* c, "", s)`: scanning left to right, an opening character that still has a closing
    character somewhere to its right starts a match that ends at the *first* closing character
    (`[^c]*` cannot cross one; nested openers are swallowed); an opener without a closer is kept.
    The flag says "inside a match". -/
def stripDelimAux (o c : Char) : Bool → List Char → List Char
  | _, [] => []
  | true, x :: t => if x = c then stripDelimAux o c false t else stripDelimAux o c true t
  | false, x :: t =>
    if x = o ∧ t.contains c then stripDelimAux o c true t else x :: stripDelimAux o c false t

def stripDelim (o c : Char) (s : List Char) : List Char := stripDelimAux o c false s

/-- `helpers.remove_modifications` on characters:
    `re.sub(r"\[[^]]*\]", "", re.sub(r"\([^)]*\)", "", s)).replace(")", "")` -/
def removeModsL (s : List Char) : List Char :=
  (stripDelim '[' ']' (stripDelim '(' ')' s)).filter (fun x => x != ')')

def removeMods (s : String) : String := String.ofList (removeModsL s.toList)

/-- Python `s.split(sep)` for a non-empty separator: left to right, non-overlapping; `acc` holds the
    current piece reversed, the `Nat` counts characters of a matched separator still to be consumed. -/
def splitAux (sep : List Char) : Nat → List Char → List Char → List (List Char)
  | _, acc, [] => [acc.reverse]
  | skip + 1, acc, _ :: t => splitAux sep skip acc t
  | 0, acc, c :: t =>
    if sep ≠ [] ∧ sep.isPrefixOf (c :: t) then acc.reverse :: splitAux sep (sep.length - 1) [] t
    else splitAux sep 0 (c :: acc) t

def splitOn (sep s : String) : List String := (splitAux sep.toList 0 [] s.toList).map String.ofList

/-- Python `s[a:-b]` (for `b ≥ 1`): drop `a` characters in front, `b` at the end -/
def sliceL (a b : Nat) (s : List Char) : List Char := (s.drop a).take (s.length - a - b)

def slice (a b : Nat) (s : String) : String := String.ofList (sliceL a b s.toList)

def strEndsWith (s suf : String) : Bool := suf.toList.isSuffixOf s.toList

/-! ## input formats and row functions -/

inductive Format where
  | maxquant | percNative | percMokapot | fragpipe | sage | diann
deriving Repr, DecidableEq, Inhabited

/-- `razor`: `score_type.use_razor` (`"razor" in score_description`); the only thing it changes during
    ingestion is the MaxQuant protein column -/
structure Mode where
  format : Format
  remap : Bool
  razor : Bool := false
deriving Repr, DecidableEq, Inhabited

/-- the text of the PEP cell, as far as `RawRow.score` does not say it -/
inductive Cell where
  /-- a float literal: `RawRow.score = some x` the finite double `x`, `none` the text `nan` -/
  | value
  /-- the empty cell -/
  | empty
  /-- non-empty text that is no float literal (`abc`, `0,01`, `1e`) -/
  | junk
  /-- `inf` -/
  | posInf
  /-- `-inf` -/
  | negInf
deriving Repr, DecidableEq, Inhabited

/-- One data row of a result file, reduced to the cells ingestion reads.
    `pep`   MaxQuant `Modified sequence`; Percolator `peptide`; FragPipe `Peptide`; Sage `peptide`;
            DIA-NN `Modified.Sequence`
    `mod`   FragPipe `Modified Peptide` (empty elsewhere)
    `score` the cell of the PEP column before the format's transform when it is a finite float literal;
            `none` = the literal `nan` (or, with `cell ≠ .value`, what `cell` says)
    `cell`  the other texts the PEP cell may hold: empty, no float literal, `inf`, `-inf`
    `prot`  protein cells: MaxQuant `[Leading proteins, Leading razor protein]` (the second one is read
            by razor methods only and may be absent otherwise), native Percolator all remaining columns,
            mokapot `[Proteins]`, FragPipe `[Protein, Mapped Proteins]`, Sage `[proteins]`,
            DIA-NN `[Protein.Ids]`
    `decoy` DIA-NN `Decoy == 1` -/
structure RawRow where
  pep : String
  mod : String
  score : Option Rat
  prot : List String
  decoy : Bool
  cell : Cell := .value
deriving Repr, DecidableEq, Inhabited

/-- the numeric transforms of the PEP column: FragPipe `1 - p + 1e-16`, Sage `10 ** x` -/
structure Transforms where
  fragpipe : Rat → Rat
  sage : Rat → Rat

/-- the double `1e-16`, exactly -/
def eps16 : Rat := (2028240960365167 : Rat) / 20282409603651670423947251286016

/-- `10 ** n` for an integer `n` -/
def pow10 (n : Int) : Rat :=
  if 0 ≤ n then ((10 ^ n.toNat : Nat) : Rat) else 1 / ((10 ^ (-n).toNat : Nat) : Rat)

/-- exact instance; the Sage exponent is read as the integer `x.num` (the driver rejects
    non-integral exponents, for which no exact value exists) -/
def exactT : Transforms where
  fragpipe := fun p => 1 - p + eps16
  sage := fun x => pow10 x.num

/-- Percolator: flanks `-.X.-` are recognised on the *first* data row of a file only -/
def hasFlanks (s : String) : Bool := strStartsWith s "-." && strEndsWith s ".-"

def flankOf (fmt : Format) (rows : List RawRow) : Bool :=
  match fmt, rows with
  | .percNative, r :: _ => hasFlanks r.pep
  | .percMokapot, r :: _ => hasFlanks r.pep
  | _, _ => false

/-- the (still modified) peptide string a row function yields -/
def rowPeptide (fmt : Format) (flank : Bool) (r : RawRow) : String :=
  match fmt with
  | .maxquant => slice 1 1 r.pep
  | .percNative => if flank then slice 2 2 r.pep else r.pep
  | .percMokapot => if flank then slice 2 2 r.pep else r.pep
  | .fragpipe => if r.mod.toList.length > 0 then r.mod else r.pep
  | .sage => r.pep
  | .diann => r.pep

/-- the protein list of the file, before the mapper -/
def rowProteins (fmt : Format) (r : RawRow) : List String :=
  match fmt with
  | .maxquant => splitOn ";" (r.prot.headD "")
  | .percNative => r.prot
  | .percMokapot => splitOn "\t" (r.prot.headD "")
  | .fragpipe =>
    let mapped := r.prot.getD 1 ""
    if mapped.toList.length > 0 then r.prot.headD "" :: splitOn ", " mapped else [r.prot.headD ""]
  | .sage => splitOn ";" (r.prot.headD "")
  | .diann =>
    let ps := splitOn ";" (r.prot.headD "")
    if r.decoy then ps.map (fun p => "REV__" ++ p) else ps

/-- the MaxQuant parser of a razor method reads `Leading razor protein` (still split on `;`); every
    other parser ignores `use_razor` -/
def rowProteinsOf (mode : Mode) (r : RawRow) : List String :=
  if mode.format = .maxquant ∧ mode.razor = true then splitOn ";" (r.prot.getD 1 "")
  else rowProteins mode.format r

/-- a double or NaN: what `float()` / pandas make of a PEP cell -/
inductive Val where
  | nan
  | fin (x : Rat)
  | posInf
  | negInf
deriving Repr, DecidableEq, Inhabited

/-- value of the PEP cell.  The empty cell is NaN for MaxQuant (`float("nan")`) and pandas; where
    `float('')` raises (`floatRaises`) the value is never used.  Likewise for `junk`. -/
def cellVal (r : RawRow) : Val :=
  match r.cell with
  | .value => match r.score with
    | some x => .fin x
    | none => .nan
  | .empty => .nan
  | .junk => .nan
  | .posInf => .posInf
  | .negInf => .negInf

/-- FragPipe `1 - p + 1e-16`, Sage `np.power(10, x)` on the extended doubles; identity elsewhere -/
def transform (T : Transforms) (fmt : Format) (v : Val) : Val :=
  match fmt, v with
  | .fragpipe, .fin p => .fin (T.fragpipe p)
  | .fragpipe, .posInf => .negInf
  | .fragpipe, .negInf => .posInf
  | .sage, .fin x => .fin (T.sage x)
  | .sage, .negInf => .fin 0
  | _, v => v

/-- the PEP as the fold sees it: `none` for NaN and for +inf — `np.isnan(score) or
    score >= d.get(peptide, [np.inf])[0]` holds for both whatever the dict holds.  (−inf is outside
    the model, see `rowNegInf`.) -/
def Val.pep : Val → Option Rat
  | .fin x => some x
  | _ => none

def rowScore (T : Transforms) (fmt : Format) (r : RawRow) : Option Rat :=
  (transform T fmt (cellVal r)).pep

/-! ## the mapper of parsers/psm.py -/

/-- the in-silico digest as a dict `peptide → proteins` (insertion order; keys unique) -/
abbrev DMap := List (String × List String)

/-- `digest.get_proteins` on a dict: `.get(peptide, [])` -/
def digestLookup (m : DMap) (peptide : String) : List String := (m.lookup peptide).getD []

/-- source list the mapper works on: digest proteins of the stripped peptide when the method remaps,
    the proteins of the file otherwise -/
def sourceProteins (remap : Bool) (m : DMap) (modPep : String) (fileProteins : List String) : List String :=
  if remap then digestLookup m (removeMods modPep) else fileProteins

/-- `get_proteins` of `get_peptide_to_protein_mapper`: `none` for a peptide unknown to the digest,
    otherwise the source list with decoys purged if it contains a target -/
def mapProteins (remap : Bool) (m : DMap) (modPep : String) (fileProteins : List String) :
    Option (List String) :=
  if remap ∧ (sourceProteins remap m modPep fileProteins).isEmpty then none
  else some (removeDecoyProteinsFromTargetPeptides (sourceProteins remap m modPep fileProteins))

/-- a PSM as yielded by a format parser: modified peptide, score (after the transform), proteins -/
structure Psm where
  modPep : String
  score : Option Rat
  prots : List String
deriving Repr, DecidableEq, Inhabited

/-- the dict key of `parse_evidence_files` -/
def Psm.key (x : Psm) : String := removeMods x.modPep

/-- one row through row function and mapper; rows whose mapped protein list is `None` or empty are
    dropped (`if not proteins: continue`) -/
def rowPsm (T : Transforms) (mode : Mode) (m : DMap) (flank : Bool) (r : RawRow) : Option Psm :=
  match mapProteins mode.remap m (rowPeptide mode.format flank r) (rowProteinsOf mode r) with
  | none => none
  | some ps =>
    if ps.isEmpty then none
    else some { modPep := rowPeptide mode.format flank r, score := rowScore T mode.format r, prots := ps }

/-- all PSMs of one file, in row order -/
def filePsms (T : Transforms) (mode : Mode) (m : DMap) (rows : List RawRow) : List Psm :=
  rows.filterMap (rowPsm T mode m (flankOf mode.format rows))

/-! ## parse_evidence_files: the fold -/

/-- `d.get(k)` on the insertion-ordered dict -/
def get : List PepInfo → String → Option PepInfo
  | [], _ => none
  | e :: r, k => if e.peptide = k then some e else get r k

/-- `d[e.peptide] = …`: replace in place, or append a new key -/
def upsert : List PepInfo → PepInfo → List PepInfo
  | [], e => [e]
  | e' :: r, e => if e'.peptide = e.peptide then e :: r else e' :: upsert r e

/-- one PSM: skip NaN; skip unless strictly better than the current entry
    (`score >= d.get(peptide, [inf])[0]` → `continue`) -/
def ingest (d : List PepInfo) (x : Psm) : List PepInfo :=
  match x.score with
  | none => d
  | some s =>
    match get d x.key with
    | none => upsert d { peptide := x.key, pep := s, proteins := x.prots }
    | some e0 => if e0.pep ≤ s then d else upsert d { peptide := x.key, pep := s, proteins := x.prots }

def parse (xs : List Psm) : List PepInfo := xs.foldl ingest []

/-! ## files and digest maps -/

/-- `parse_evidence_file_multiple`: without remapping the maps are `[None]`; a single map serves all
    files; otherwise files and maps are zipped (the shorter list decides) -/
def pairUp (remap : Bool) (maps : List DMap) (files : List (List RawRow)) : List (DMap × List RawRow) :=
  let maps1 := if remap then maps else [[]]
  let maps2 := if maps1.length = 1 then List.replicate files.length (maps1.headD []) else maps1
  maps2.zip files

/-- PSM stream of `parse_evidence_file_multiple` -/
def allPsms (T : Transforms) (mode : Mode) (pairs : List (DMap × List RawRow)) : List Psm :=
  pairs.flatMap (fun p => filePsms T mode p.1 p.2)

def ingestPairs (T : Transforms) (mode : Mode) (pairs : List (DMap × List RawRow)) : List PepInfo :=
  parse (allPsms T mode pairs)

/-- `parsers.evidence.parse_evidence_files` -/
def ingestFiles (T : Transforms) (mode : Mode) (maps : List DMap) (files : List (List RawRow)) :
    List PepInfo :=
  ingestPairs T mode (pairUp mode.remap maps files)

/-! ## cells the parsers refuse -/

inductive IngestErr where
  /-- the parser raises while converting a PEP cell: `ValueError: could not convert string to float`
      (csv formats), `TypeError` of `np.isnan` on a text column (DIA-NN through pandas) -/
  | badScoreCell
  /-- a PSM with PEP −inf: the code stores it, `PepInfo.pep : Rat` cannot — outside the model -/
  | negInfPep
deriving Repr, DecidableEq, Inhabited

/-- `float(cell)` of the format's parser raises: no float literal; the empty cell except where the
    parser reads it as NaN (`maxquant.py`: `float(x) if len(x) > 0 else float("nan")`; pandas) -/
def floatRaises (fmt : Format) (c : Cell) : Bool :=
  match c with
  | .junk => true
  | .empty =>
    match fmt with
    | .maxquant => false
    | .diann => false
    | _ => true
  | _ => false

/-- pandas reads the cell as a missing value (`''`, `nan`) -/
def isMissing (r : RawRow) : Bool :=
  match r.cell with
  | .empty => true
  | .value => r.score.isNone
  | _ => false

/-- the row makes its parser raise.  Percolator, FragPipe and Sage convert the cell of EVERY row
    before the mapper is asked; MaxQuant converts it after `if not proteins: continue`, i.e. only for
    rows that yield a PSM.  (DIA-NN: decided per file, `fileRaises`.) -/
def rowRaises (T : Transforms) (mode : Mode) (m : DMap) (flank : Bool) (r : RawRow) : Bool :=
  match mode.format with
  | .maxquant => floatRaises .maxquant r.cell && (rowPsm T mode m flank r).isSome
  | .diann => false
  | f => floatRaises f r.cell

/-- reading the file raises.  DIA-NN: one non-numeric cell makes pandas deliver the whole PEP column
    as text (missing cells stay NaN), and `np.isnan` in `parse_evidence_files` raises on the first
    yielded PSM whose cell is not missing. -/
def fileRaises (T : Transforms) (mode : Mode) (m : DMap) (rows : List RawRow) : Bool :=
  match mode.format with
  | .diann =>
    rows.any (fun r => r.cell = .junk) &&
      rows.any (fun r => (rowPsm T mode m false r).isSome && !isMissing r)
  | _ => rows.any (rowRaises T mode m (flankOf mode.format rows))

/-- the row yields a PSM whose PEP is −inf -/
def rowNegInf (T : Transforms) (mode : Mode) (m : DMap) (flank : Bool) (r : RawRow) : Bool :=
  (rowPsm T mode m flank r).isSome && transform T mode.format (cellVal r) = .negInf

/-- `parse_evidence_files` with its refusals: `badScoreCell` exactly when reading some paired file
    raises; otherwise the peptide list of `ingestPairs` -/
def ingestChecked (T : Transforms) (mode : Mode) (pairs : List (DMap × List RawRow)) :
    Except IngestErr (List PepInfo) :=
  if pairs.any (fun p => fileRaises T mode p.1 p.2) then .error .badScoreCell
  else if pairs.any (fun p => p.2.any (rowNegInf T mode p.1 (flankOf mode.format p.2))) then
    .error .negInfPep
  else .ok (ingestPairs T mode pairs)

/-- `parsers.evidence.parse_evidence_files`, refusals included (what the driver op `ingest` runs) -/
def ingestFilesChecked (T : Transforms) (mode : Mode) (maps : List DMap) (files : List (List RawRow)) :
    Except IngestErr (List PepInfo) :=
  ingestChecked T mode (pairUp mode.remap maps files)

/-! ## digests of non-specific searches (`use_hash_key`): the (prefix index, sequences) pair

`digest.get_peptide_to_protein_map(..., use_hash_key=True)` returns `(peptide_to_protein_map,
protein_to_seq_map)`: the first dict is keyed by `peptide[:6]`, the second holds every database sequence
(targets and generated decoys).  `digest.get_proteins` recognises the pair (`isinstance(x, tuple)`) and
answers

    hash_key = peptide[:6]; proteins = []
    if hash_key in x[0]:
        for protein in x[0][hash_key]:
            if peptide in x[1][protein]: proteins.append(protein)
        proteins = sorted(proteins)
    return proteins

The mapper of `parsers/psm.py` does not care which kind of object it holds: it calls `digest.get_proteins`
and skips the row when the answer is empty.  Everything below is therefore the ingestion of the first part
of this file with the lookup as a parameter. -/

/-- what `digest.get_proteins` may be handed: a dict `peptide → proteins`, or the pair of a non-specific
    digest (`idx`: `peptide[:6] → proteins` in the order the records were read; `seqs`: `protein → sequence`;
    strings as character lists, as in `Model/C09.lean` which models how the pair is built) -/
inductive Digest where
  | dict (m : DMap)
  | hashed (idx : C09.PMap) (seqs : C09.SeqMap)
deriving Repr, DecidableEq, Inhabited

/-- `digest.get_proteins` on the pair: the proteins listed under the peptide's 6-residue prefix whose stored
    sequence contains the peptide as a substring (`C09.confirm`), `sorted`.  (A protein listed in the index
    without a sequence is a `KeyError` in the code; the builder stores the sequence of every record it
    indexes, `Digest.wf`; the driver refuses other pairs.) -/
def hashLookup (idx : C09.PMap) (seqs : C09.SeqMap) (q : String) : List String :=
  match C09.confirm seqs q.toList (C09.get idx (q.toList.take 6)) with
  | .ok l => (C09.sortStrs l).map String.ofList
  | .error _ => []

/-- `digest.get_proteins(digest, peptide)` -/
def Digest.lookup : Digest → String → List String
  | .dict m, q => digestLookup m q
  | .hashed idx seqs, q => hashLookup idx seqs q

/-- every protein the index lists has a sequence (what `get_peptide_to_protein_map` guarantees:
    `protein_to_seq_map[protein] = seq` precedes the digestion of the record) -/
def Digest.wf : Digest → Bool
  | .dict _ => true
  | .hashed idx seqs => idx.all (fun kv => kv.2.all (fun p => (C09.lookupSeq seqs p).isSome))

/-- `sourceProteins` with the lookup as a parameter -/
def sourceProteinsBy (remap : Bool) (look : String → List String) (modPep : String)
    (fileProteins : List String) : List String :=
  if remap then look (removeMods modPep) else fileProteins

/-- `mapProteins` with the lookup as a parameter: `none` for a peptide the digest does not know -/
def mapProteinsBy (remap : Bool) (look : String → List String) (modPep : String)
    (fileProteins : List String) : Option (List String) :=
  if remap ∧ (sourceProteinsBy remap look modPep fileProteins).isEmpty then none
  else some (removeDecoyProteinsFromTargetPeptides (sourceProteinsBy remap look modPep fileProteins))

/-- `rowPsm` with the lookup as a parameter -/
def rowPsmBy (T : Transforms) (mode : Mode) (look : String → List String) (flank : Bool) (r : RawRow) :
    Option Psm :=
  match mapProteinsBy mode.remap look (rowPeptide mode.format flank r) (rowProteinsOf mode r) with
  | none => none
  | some ps =>
    if ps.isEmpty then none
    else some { modPep := rowPeptide mode.format flank r, score := rowScore T mode.format r, prots := ps }

def filePsmsBy (T : Transforms) (mode : Mode) (look : String → List String) (rows : List RawRow) : List Psm :=
  rows.filterMap (rowPsmBy T mode look (flankOf mode.format rows))

def rowRaisesBy (T : Transforms) (mode : Mode) (look : String → List String) (flank : Bool) (r : RawRow) : Bool :=
  match mode.format with
  | .maxquant => floatRaises .maxquant r.cell && (rowPsmBy T mode look flank r).isSome
  | .diann => false
  | f => floatRaises f r.cell

def fileRaisesBy (T : Transforms) (mode : Mode) (look : String → List String) (rows : List RawRow) : Bool :=
  match mode.format with
  | .diann =>
    rows.any (fun r => r.cell = .junk) &&
      rows.any (fun r => (rowPsmBy T mode look false r).isSome && !isMissing r)
  | _ => rows.any (rowRaisesBy T mode look (flankOf mode.format rows))

def rowNegInfBy (T : Transforms) (mode : Mode) (look : String → List String) (flank : Bool) (r : RawRow) : Bool :=
  (rowPsmBy T mode look flank r).isSome && transform T mode.format (cellVal r) = .negInf

/-- PSM stream of `parse_evidence_file_multiple` over files paired with digests of either kind -/
def allPsmsD (T : Transforms) (mode : Mode) (pairs : List (Digest × List RawRow)) : List Psm :=
  pairs.flatMap (fun p => filePsmsBy T mode p.1.lookup p.2)

def ingestPairsD (T : Transforms) (mode : Mode) (pairs : List (Digest × List RawRow)) : List PepInfo :=
  parse (allPsmsD T mode pairs)

/-- `ingestChecked` over digests of either kind -/
def ingestCheckedD (T : Transforms) (mode : Mode) (pairs : List (Digest × List RawRow)) :
    Except IngestErr (List PepInfo) :=
  if pairs.any (fun p => fileRaisesBy T mode p.1.lookup p.2) then .error .badScoreCell
  else if pairs.any (fun p => p.2.any (rowNegInfBy T mode p.1.lookup (flankOf mode.format p.2))) then
    .error .negInfPep
  else .ok (ingestPairsD T mode pairs)

/-- `pairUp` over digests of either kind (`[None]` without remapping is the empty dict: never consulted) -/
def pairUpD (remap : Bool) (maps : List Digest) (files : List (List RawRow)) : List (Digest × List RawRow) :=
  let maps1 := if remap then maps else [.dict []]
  let maps2 := if maps1.length = 1 then List.replicate files.length (maps1.headD (.dict [])) else maps1
  maps2.zip files

/-- `parsers.evidence.parse_evidence_files` with a list of digests of either kind, refusals included (what
    the driver op `ingest` runs as soon as one of the maps is a (prefix index, sequences) pair) -/
def ingestFilesCheckedD (T : Transforms) (mode : Mode) (maps : List Digest) (files : List (List RawRow)) :
    Except IngestErr (List PepInfo) :=
  ingestCheckedD T mode (pairUpD mode.remap maps files)

/-! ### the dict a digest amounts to on a given file

Ingestion asks a digest only about the stripped peptides of the rows it reads.  `Digest.tabulate` writes
the answers to exactly these questions into a dict; ingestion with the digest IS ingestion with that dict
(`Props/C10.lean`, `digest_ingest_is_dict_ingest`), which carries every theorem about dict digests over to
the pair of a non-specific search. -/

/-- the dict `q ↦ look q` for the listed peptides -/
def tab (look : String → List String) (qs : List String) : DMap := qs.map (fun q => (q, look q))

/-- the stripped peptides a file can ask its digest about (either flank decision) -/
def queries (mode : Mode) (rows : List RawRow) : List String :=
  rows.flatMap (fun r =>
    [removeMods (rowPeptide mode.format true r), removeMods (rowPeptide mode.format false r)])

def Digest.tabulate (d : Digest) (mode : Mode) (rows : List RawRow) : DMap := tab d.lookup (queries mode rows)

/-- every file with the dict its digest amounts to on it -/
def dictPairs (mode : Mode) (pairs : List (Digest × List RawRow)) : List (DMap × List RawRow) :=
  pairs.map (fun p => (p.1.tabulate mode p.2, p.2))

/-- Python `pat in s` on strings -/
def isSubstr (pat s : String) : Bool := containsSub pat.toList s.toList

/-! ## which mode a shipped method selects (scoring_strategy.ProteinScoringStrategy.__init__) -/

/-- score origin and `use_razor` from the score description; `mokapot` = the file carries a `SpecId`
    header instead of `PSMId` (decided by `percolator.get_percolator_column_idxs`) -/
def modeOfScoreType (d : String) (mokapot : Bool) : Mode :=
  let razor := strContains d "razor"
  if strContains d "Perc" then
    { format := if mokapot then .percMokapot else .percNative, remap := strContains d "remap", razor := razor }
  else if strContains d "FragPipe" then { format := .fragpipe, remap := false, razor := razor }
  else if strContains d "Sage" then { format := .sage, remap := false, razor := razor }
  else if strContains d "DIA-NN" then { format := .diann, remap := false, razor := razor }
  else { format := .maxquant, remap := !strContains d "no_remap", razor := razor }

/-- `methods.parse_method_toml`: `score_type = toml["scoreType"]`, `+= " razor"` when
    `toml["sharedPeptides"] == "razor"` — the description `ProteinScoringStrategy` is built from -/
def descriptionOf (m : PgFdr.Generated.MethodToml) : String :=
  m.scoreType.getD "" ++ (if m.sharedPeptides = some "razor" then " razor" else "")

/-- score description of a shipped method (`methods.parse_method_toml`); `none` for an unknown name
    or a method without `scoreType` -/
def scoreTypeOfMethod (name : String) : Option String :=
  match PgFdr.Generated.methods.find? (fun m => m.name = name) with
  | some m => m.scoreType
  | none => none

def isRazorMethod (name : String) : Bool :=
  match PgFdr.Generated.methods.find? (fun m => m.name = name) with
  | some m => m.sharedPeptides = some "razor"
  | none => false

/-- score description of a shipped method as `ProteinScoringStrategy` receives it; `none` for an
    unknown name or a method without `scoreType` -/
def descriptionOfMethod (name : String) : Option String :=
  match PgFdr.Generated.methods.find? (fun m => m.name = name) with
  | some m => m.scoreType.map (fun _ => descriptionOf m)
  | none => none

/-! ## vocabulary of the property statements (Props/C10.lean) -/

/-- scores of the PSMs of one stripped peptide that carry a PEP -/
def scoresOf (q : String) (xs : List Psm) : List Rat :=
  xs.filterMap (fun x => if x.key = q then x.score else none)

/-- Percolator input (either header) -/
def isPerc : Format → Bool
  | .percNative => true
  | .percMokapot => true
  | _ => false

/-- prefix test of `remove_decoy_proteins_from_target_peptides` -/
def isDecoyId (p : String) : Bool := strStartsWith p "REV__" || strStartsWith p "rev_"

/-- the decoy markers occur in the identifier only as its prefix -/
def MarkerOnlyAsPrefix (p : String) : Prop :=
  (strContains p "REV__" = true → strStartsWith p "REV__" = true) ∧
  (strContains p "rev_" = true → strStartsWith p "rev_" = true)

instance (p : String) : Decidable (MarkerOnlyAsPrefix p) := by unfold MarkerOnlyAsPrefix; infer_instance

/-- two proteins listed by one peptide of the list -/
def SharePeptide (pil : List PepInfo) (a b : String) : Prop :=
  ∃ e ∈ pil, a ∈ e.proteins ∧ b ∈ e.proteins

/-- keep the first occurrence of every key -/
def dedupFirst : List String → List String
  | [] => []
  | k :: r => k :: (dedupFirst r).filter (fun x => x != k)

/-- no modification delimiters -/
def Plain (a : List Char) : Prop := ∀ c ∈ a, c ≠ '(' ∧ c ≠ ')' ∧ c ≠ '[' ∧ c ≠ ']'

/-- `Spells s b`: the character list `s` spells the bare peptide `b` with modification tokens:
    residues, `( … )` tokens (body free of `)`; a nested MaxQuant token `(Oxidation (M))` is such a
    token followed by a stray `)`), `[ … ]` tokens (body free of `]` and `(`), stray `)` -/
inductive Spells : List Char → List Char → Prop
  | nil : Spells [] []
  | residue {s b : List Char} (c : Char) : (c ≠ '(' ∧ c ≠ ')' ∧ c ≠ '[' ∧ c ≠ ']') →
      Spells s b → Spells (c :: s) (c :: b)
  | paren {s b : List Char} (body : List Char) : (∀ x ∈ body, x ≠ ')') →
      Spells s b → Spells ('(' :: (body ++ ')' :: s)) b
  | bracket {s b : List Char} (body : List Char) : (∀ x ∈ body, x ≠ ']' ∧ x ≠ '(') →
      Spells s b → Spells ('[' :: (body ++ ']' :: s)) b
  | close {s b : List Char} : Spells s b → Spells (')' :: s) b

/-- the same files in the same order, each with its rows permuted -/
inductive RowsShuffled : List (DMap × List RawRow) → List (DMap × List RawRow) → Prop
  | nil : RowsShuffled [] []
  | cons {a b : DMap × List RawRow} {l l' : List (DMap × List RawRow)} :
      a.1 = b.1 → a.2.Perm b.2 → RowsShuffled l l' → RowsShuffled (a :: l) (b :: l')

/-- files `pairs'` arise from `pairs` by reordering the files (each keeping its digest map) and
    reordering the rows inside every file -/
def Shuffled (pairs pairs' : List (DMap × List RawRow)) : Prop :=
  ∃ mid, pairs.Perm mid ∧ RowsShuffled mid pairs'

end PgFdr.C10
