/-
Model of evidence assignment and protein-group scores (property C05).

  protein_groups.ProteinGroups.create_index / get_protein_group_idxs      → `idxOf`, `groupIdxs`
  helpers.is_missing_in_protein_groups / is_shared_peptide                → `isMissing`, `isShared`
  observed_peptides.get_peptide_counts_per_protein / get_best_peptide_score_per_protein
      (what scoring_strategy.set_peptide_counts_per_protein stores)      → `peptideCount`, `bestPepOf`, `razorOf`
  scoring_strategy._retain_protein_with_most_observed_peptides            → `razorPick`
  scoring_strategy.filter_proteins                                        → `filterProteins`
  scoring_strategy.collect_peptide_scores_per_protein                     → `collectEvidence`
  scoring.BestPEPScore.calculate_score                                    → `bestPepScoreWith`, `bestPepKey`
  scoring.MultPEPScore._get_score_and_num_peptides / calculate_score      → `multPepTerms`, `multPepScoreWith`
  competition.do_competition, "remove protein groups without peptides"    → `ranked`

    for peptide, (score, proteins) in peptide_info_list.items():
        proteins = self.filter_proteins(proteins)                      # razor: [argmax] ; IndexError on []
        idxs = protein_groups.get_protein_group_idxs(proteins)         # set, -1 for an unknown protein
        if is_missing(idxs) and not suppress: raise                     # set() or {-1}
        if is_shared(idxs): continue                                    # len(set) > 1
        for i in idxs: evidence[i].append((score, peptide, proteins))
        if not is_decoy(proteins) and not isnan(score): peps.append(score)

The model follows the PROPERTY where the code does not: with the warning suppressed a peptide all
of whose proteins are unknown has the index set {-1}; the code then appends it to `evidence[-1]`
(the LAST group, Python's negative indexing) and its PEP to the cutoff list.  The property says the
peptide "is ignored"; `step` ignores it (DESIGN.md §9 item 5, fixes/C05-unknown-protein-last-group).

PEPs are the exact rationals of the implementation's doubles; NaN PEPs never reach the peptide
list (parsers/evidence.py drops them), so `isnan(score)` is not modelled.
`use_shared_peptides` ("with_shared", used by no shipped method) is not modelled.
Executable, total, Mathlib-free.
-/
import PgFdr.Model.Basic

namespace PgFdr.C05

/-! ### positions of proteins in the grouping -/

/-- `create_index`: `map[protein] = position`, later groups overwrite earlier ones, so a protein
    is found at the LAST group that lists it (groups are disjoint in every grouping the pipeline
    builds; see `idxOf_eq_some_iff_mem`).  `none` is the code's −1. -/
def idxOfFrom (p : String) : Nat → List (List String) → Option Nat
  | _, [] => none
  | i, g :: gs =>
    match idxOfFrom p (i + 1) gs with
    | some j => some j
    | none => if g.contains p then some i else none

def idxOf (groups : List (List String)) (p : String) : Option Nat := idxOfFrom p 0 groups

/-- `get_protein_group_idxs` before the conversion to a set: one entry per listed protein -/
def groupIdxs (groups : List (List String)) (proteins : List String) : List (Option Nat) :=
  proteins.map (idxOf groups)

/-- `len(set(idxs)) == 1` without building the set: non-empty and all equal -/
def single (l : List (Option Nat)) : Option (Option Nat) :=
  match l with
  | [] => none
  | x :: r => if r.all (fun y => y == x) then some x else none

/-- `helpers.is_missing_in_protein_groups`: the set is empty or `{-1}` -/
def isMissing (l : List (Option Nat)) : Bool := l.all (fun y => y == none)

/-- `helpers.is_shared_peptide`: the set has more than one element -/
def isShared (l : List (Option Nat)) : Bool :=
  match l with
  | [] => false
  | x :: r => !(r.all (fun y => y == x))

/-! ### razor -/

/-- what `set_peptide_counts_per_protein` leaves on the strategy object, plus the md5 key
    (`hashlib.md5(protein).hexdigest()`, supplied from outside, assumed injective) -/
structure Razor where
  count : String → Nat
  best : String → Rat
  key : String → String

/-- `get_peptide_counts_per_protein`: number of (distinct, the list is a dict) peptides listing `p`;
    `.get(protein, 0)` for a protein no peptide lists -/
def peptideCount (pil : List PepInfo) (p : String) : Nat :=
  (pil.filter (fun x => x.proteins.contains p)).length

def minRat : Rat → List Rat → Rat
  | a, [] => a
  | a, b :: r => minRat (if b < a then b else a) r

/-- `get_best_peptide_score_per_protein`: smallest PEP among the peptides listing `p`;
    `.get(protein, 1.0)` for a protein no peptide lists -/
def bestPepOf (pil : List PepInfo) (p : String) : Rat :=
  match (pil.filter (fun x => x.proteins.contains p)).map (·.pep) with
  | [] => 1
  | a :: r => minRat a r

def razorOf (pil : List PepInfo) (key : String → String) : Razor :=
  { count := peptideCount pil, best := bestPepOf pil, key := key }

/-- the tuple `(count, -1 * bestPEP, md5 hex digest, protein)` -/
abbrev Cand := Nat × Rat × String × String

def cand (rz : Razor) (p : String) : Cand := (rz.count p, - rz.best p, rz.key p, p)

/-- Python's tuple `<` on `Cand` (lexicographic) -/
def candLt (a b : Cand) : Bool :=
  decide (a.1 < b.1) || (a.1 == b.1 &&
    (decide (a.2.1 < b.2.1) || (a.2.1 == b.2.1 &&
      (decide (a.2.2.1 < b.2.2.1) || (a.2.2.1 == b.2.2.1 && decide (a.2.2.2 < b.2.2.2))))))

/-- `sorted(tuples, reverse=True)[0][-1]`: the protein with the largest tuple -/
def razorPick (rz : Razor) : List String → Option String
  | [] => none
  | p :: ps => some (ps.foldl (fun b q => if candLt (cand rz b) (cand rz q) then q else b) p)

inductive Err where
  | unknownProtein   -- `raise Exception("Could not find any of the proteins …")`
  | razorNoProteins  -- `sorted([])[0]` → IndexError (razor on a peptide without proteins)
deriving Repr, DecidableEq

def Err.toString : Err → String
  | .unknownProtein => "unknown_protein"
  | .razorNoProteins => "razor_no_proteins"

/-- `filter_proteins` -/
def filterProteins (rz : Option Razor) (proteins : List String) : Except Err (List String) :=
  match rz with
  | none => .ok proteins
  | some r =>
    match razorPick r proteins with
    | none => .error .razorNoProteins
    | some p => .ok [p]

/-! ### evidence assignment -/

abbrev State := List (List Evidence) × List Rat

/-- one iteration of the loop of `collect_peptide_scores_per_protein` -/
def step (groups : List (List String)) (rz : Option Razor) (suppress : Bool) (st : State) (x : PepInfo) :
    Except Err State :=
  match filterProteins rz x.proteins with
  | .error e => .error e
  | .ok prots =>
    let idxs := groupIdxs groups prots
    if isMissing idxs && !suppress then .error .unknownProtein
    else if isShared idxs then .ok st
    else
      match single idxs with
      | some (some i) =>
        .ok (st.1.modify i (· ++ [⟨x.pep, x.peptide, prots⟩]),
             if isDecoy prots then st.2 else st.2 ++ [x.pep])
      | _ => .ok st   -- no protein, or only unknown proteins with the warning suppressed: ignored

def collectLoop (groups : List (List String)) (rz : Option Razor) (suppress : Bool) :
    List PepInfo → State → Except Err State
  | [], st => .ok st
  | x :: r, st =>
    match step groups rz suppress st x with
    | .error e => .error e
    | .ok st' => collectLoop groups rz suppress r st'

/-- `collect_peptide_scores_per_protein`: evidence per group (position-aligned with `groups`,
    each list in peptide-list order) and the PEP list handed to `calc_post_err_prob_cutoff` -/
def collectEvidence (groups : List (List String)) (pil : List PepInfo) (rz : Option Razor)
    (suppress : Bool) : Except Err State :=
  collectLoop groups rz suppress pil (List.replicate groups.length [], [])

/-- the per-peptide decision stated as a function: the position the peptide supports, if any
    (used by the theorems; `collectEvidence` is proved to be the filter by this predicate) -/
def supportOf (groups : List (List String)) (prots : List String) : Option Nat :=
  match single (groupIdxs groups prots) with
  | some (some i) => some i
  | _ => none

/-! ### scores -/

/-- `BestPEPScore.calculate_score` with `-log10(· + 5e-324)` as the parameter `negLog`:
    `max([negLog y.pep …]) if len > 0 else -100.0` -/
def bestPepScoreWith {S : Type} [Max S] (negLog : Rat → S) (dflt : S) (ev : List Evidence) : S :=
  match ev.map (fun e => negLog e.pep) with
  | [] => dflt
  | a :: r => r.foldl max a

/-- smallest PEP of an evidence list -/
def minPep (ev : List Evidence) : Option Rat :=
  match ev.map (·.pep) with
  | [] => none
  | a :: r => some (minRat a r)

/-- executable score key of the best-PEP score: order reversal `q ↦ -q` in place of `-log10`;
    larger is better, `-100` for a group without evidence (below every key of a PEP ≤ 100) -/
def bestPepKey (ev : List Evidence) : Rat := bestPepScoreWith (fun q => -q) (-100) ev

/-- `(PEP, peptide)` part of Python's tuple order on `(PEP, peptide, proteins)`; the third
    component only orders entries that agree on PEP and peptide, which cannot change which PEP
    a peptide's first occurrence carries -/
def evLe (a b : Evidence) : Bool :=
  decide (a.pep < b.pep) || (a.pep == b.pep && decide (a.peptide ≤ b.peptide))

def insertEv (a : Evidence) : List Evidence → List Evidence
  | [] => [a]
  | b :: r => if evLe a b then a :: b :: r else b :: insertEv a r

/-- `sorted(score_peptide_pairs)` (insertion sort, stable) -/
def sortEv : List Evidence → List Evidence
  | [] => []
  | a :: r => insertEv a (sortEv r)

/-- `if peptide not in seen_peptides: seen_peptides.add(peptide); …` -/
def firstOcc (seen : List String) : List Evidence → List Evidence
  | [] => []
  | e :: r => if seen.contains e.peptide then firstOcc seen r else e :: firstOcc (e.peptide :: seen) r

/-- the PEPs that enter the multPEP sum, in summation order: first occurrence of every peptide
    in sorted order -/
def multPepTerms (ev : List Evidence) : List Rat := (firstOcc [] (sortEv ev)).map (·.pep)

/-- `_get_score_and_num_peptides`: `(Σ negLog PEP, number of distinct peptides)` -/
def multPepSumAndCount (negLog : Rat → Rat) (ev : List Evidence) : Rat × Nat :=
  ((multPepTerms ev).foldl (fun s q => s + negLog q) 0, (multPepTerms ev).length)

/-- `MultPEPScore.calculate_score` with `c = log10(div)`: `none` is the code's `-100.0`
    (no peptide) -/
def multPepScoreWith (negLog : Rat → Rat) (c : Rat) (ev : List Evidence) : Option Rat :=
  let (s, n) := multPepSumAndCount negLog ev
  if n == 0 then none else some (s + c * (n : Rat))

/-! ### which groups are ranked -/

/-- `do_competition`: `filter(lambda x: len(x[1]) > 0, zip(groups, evidence, …))` -/
def ranked (groups : List (List String)) (evs : List (List Evidence)) :
    List (List String × List Evidence) :=
  (groups.zip evs).filter (fun x => !x.2.isEmpty)

/-- per position: does the group take part in the ranking -/
def rankable (ev : List Evidence) : Bool := !ev.isEmpty

end PgFdr.C05
