import PgFdr.Model.Basic
import PgFdr.Model.C03
/-!
Model of the rescue regrouping (property C04), executable on `String`s, Mathlib-free.

  grouping.py           RescuedGrouping._filter_peptide_list_by_score_cutoff      → `filterByCutoff`
                        RescuedGrouping._calculate_rescue_score_cutoff            → `rescueScore` (the score; `10^(−score)` is the implementation's float)
                        RescuedGrouping.get_rescued_protein_groups                → `rescuedGroups`
                        RescuedGrouping.merge_with_rescued_protein_groups         → `rescueGroupsN`
                        RescuedGrouping.update_protein_groups                     → `secondPassGroups`
  observed_peptides.py  _get_protein_group_idxs_with_unique_peptides              → `identifiedIdxs`
                        get_connected_proteins                                    → `protNodes`, `edges`, `comps`
  graphs.py             PeptideProteinGraph.create_graph                          → `protNodes`, `edges`, `pepNodeName`
                        ConnectedProteinGraphs.decouple_connected_proteins        → `decouple`, `applyLeaves`
                        _split_single_connected_component                         → `splitLoop`
                        _get_subgraphs_after_cut                                  → `comps` on the nodes without the cut
  protein_groups.py     create_index / merge_groups / remove_empty_groups         → `idxOf`, `mergeGroups`, `dropEmpty`
                        add_unseen_protein_groups                                 → `addUnseen`
  results.py            from_protein_groups skips `is_obsolete` groups            → `reported`

Parameters recorded from the implementation (DESIGN.md §4 "External calls become parameters"):
  * `N`     the subset grouping of the filtered peptide list (`generate_protein_groups`; property C03);
            `rescueGroupsWith` takes it as a function instead, and `rescueGroups` plugs in the model of
            `Model/C03.lean` (the driver reports that model's grouping next to the recorded one);
  * `cuts`  the finite map `(sorted node list, s, t) ↦ cut` of `networkx … minimum_st_node_cut`;
  * `cutoff` the PEP threshold `10^(−min score)` computed in floating point by the implementation.

Errors: `cut_lookup_miss` (the recorded map has no entry: a correspondence failure), `empty_cut`
(an empty cut would make the implementation loop forever: it re-queues the same graph), `fuel`
(never reached: every accepted cut removes at least one node; see `decouple`).

Deviation in evaluation order only: the implementation keeps the sub-graphs in a queue and merges the
groups of a leaf when it is popped; the model computes the leaves of every component depth first and
then applies the merges leaf by leaf.  The merges of different leaves touch disjoint group slots, so
the final list of groups is the same (and the correspondence compares the exact nested lists).
-/
namespace PgFdr.C04

abbrev Groups := List (List String)

/-! ### small list utilities (structural, kernel-reducible) -/

/-- remove repeated entries, keeping the last occurrence -/
def dedup : List String → List String
  | [] => []
  | a :: r => if a ∈ r then dedup r else a :: dedup r

/-- insert into an ascending list (Python `str` order = code point order = Lean `String.lt`) -/
def ins (a : String) : List String → List String
  | [] => [a]
  | b :: r => if a < b then a :: b :: r else b :: ins a r

def isort : List String → List String
  | [] => []
  | a :: r => ins a (isort r)

/-- `sorted(set(l))` -/
def sortDedup (l : List String) : List String := isort (dedup l)

/-- `itertools.combinations(l, 2)` in its order -/
def pairs : List String → List (String × String)
  | [] => []
  | a :: r => r.map (fun b => (a, b)) ++ pairs r

/-- run `f` over a list, concatenating the results; the first error wins -/
def collect {α β : Type} (f : α → Except String (List β)) : List α → Except String (List β)
  | [] => .ok []
  | a :: r =>
    match f a with
    | .error e => .error e
    | .ok x =>
      match collect f r with
      | .error e => .error e
      | .ok y => .ok (x ++ y)

/-! ### score cutoff filter -/

/-- `_filter_peptide_list_by_score_cutoff`: strict `<` -/
def filterByCutoff (pil : List PepInfo) (cutoff : Rat) : List PepInfo :=
  pil.filter (fun x => decide (x.pep < cutoff))

/-! ### the index of `ProteinGroups` -/

/-- `create_index`: the position of the *last* group that lists the protein -/
def idxOf : Groups → String → Option Nat
  | [], _ => none
  | g :: rest, p =>
    match idxOf rest p with
    | some i => some (i + 1)
    | none => if p ∈ g then some 0 else none

/-- `get_protein_group(p)[0]` -/
def leaderOf (N : Groups) (p : String) : Option String :=
  match idxOf N p with
  | none => none
  | some i => (N.getD i []).head?

/-- the group position a peptide is unique to: `get_protein_group_idxs(proteins)` is a singleton
    other than `{-1}` (not shared, not missing) -/
def uniqueIdx (N : Groups) (x : PepInfo) : Option Nat :=
  match x.proteins with
  | [] => none
  | p :: ps =>
    match idxOf N p with
    | none => none
    | some i => if ps.all (fun q => idxOf N q == some i) then some i else none

/-- `_get_protein_group_idxs_with_unique_peptides` -/
def identifiedIdxs (N : Groups) (filtered : List PepInfo) : List Nat :=
  filtered.filterMap (uniqueIdx N)

/-! ### the bipartite graph of `PeptideProteinGraph.create_graph` -/

/-- leaders of the groups without a unique peptide, in group order (the protein nodes) -/
def protNodesAux (ident : List Nat) : Nat → Groups → List String
  | _, [] => []
  | i, g :: rest =>
    if i ∈ ident then protNodesAux ident (i + 1) rest
    else
      match g with
      | [] => protNodesAux ident (i + 1) rest
      | p :: _ => p :: protNodesAux ident (i + 1) rest

def protNodes (N : Groups) (filtered : List PepInfo) : List String :=
  protNodesAux (identifiedIdxs N filtered) 0 N

/-- `"peptide:" + ";".join(sorted(leading_proteins))` -/
def pepNodeName (N : Groups) (x : PepInfo) : String :=
  "peptide:" ++ joinWith ";" (sortDedup (x.proteins.filterMap (leaderOf N)))

/-- edges (protein node, pseudo-peptide node): one per observed peptide of the leader -/
def edges (N : Groups) (filtered : List PepInfo) : List (String × String) :=
  (protNodes N filtered).flatMap (fun p =>
    (filtered.filter (fun x => decide (p ∈ x.proteins))).map (fun x => (p, pepNodeName N x)))

/-- all nodes: protein nodes, then pseudo-peptide nodes -/
def allNodes (N : Groups) (filtered : List PepInfo) : List String :=
  dedup (protNodes N filtered ++ (edges N filtered).map (·.2))

/-- neighbours in the whole graph -/
def adj (es : List (String × String)) (a : String) : List String :=
  es.filterMap (fun e => if e.1 = a then some e.2 else if e.2 = a then some e.1 else none)

/-- neighbours in the sub-graph induced by `nodes` -/
def adjIn (es : List (String × String)) (nodes : List String) (a : String) : List String :=
  if a ∈ nodes then (adj es a).filter (fun b => decide (b ∈ nodes)) else []

/-! ### connected components (closure iteration with fuel, DESIGN-lean-scratch §14.17) -/

def fresh (ad : String → List String) (S : List String) : List String :=
  dedup ((S.flatMap ad).filter (fun x => decide (x ∉ S)))

def iter (ad : String → List String) : Nat → List String → List String
  | 0, S => S
  | k + 1, S => if fresh ad S = [] then S else iter ad k (S ++ fresh ad S)

/-- the component of `s` in the sub-graph induced by `nodes` -/
def component (es : List (String × String)) (nodes : List String) (s : String) : List String :=
  iter (adjIn es nodes) nodes.length [s]

def compsAux (es : List (String × String)) (nodes : List String) : Nat → List String → List (List String)
  | 0, _ => []
  | _ + 1, [] => []
  | k + 1, s :: rest =>
    let c := component es nodes s
    c :: compsAux es nodes k (rest.filter (fun x => decide (x ∉ c)))

/-- `nx.connected_components` of the sub-graph induced by `nodes` -/
def comps (es : List (String × String)) (nodes : List String) : List (List String) :=
  compsAux es nodes nodes.length nodes

/-! ### `_split_single_connected_component` and `decouple_connected_proteins` -/

abbrev CutMap := List ((List String × String × String) × List String)

/-- the loop over `itertools.combinations(A, 2)`; `cur_min` stays `inf` in the code, so the size
    test always passes; `seen` holds the accepted cuts of more than one node; `best` the
    sub-graphs of the last accepted cut -/
def splitLoop (es : List (String × String)) (nodes B : List String) (cuts : CutMap) :
    List (String × String) → List (List String) → List (List String) → Except String (List (List String))
  | [], _, best => .ok best
  | (s, t) :: rest, seen, best =>
    match cuts.lookup (sortDedup nodes, s, t) with
    | none => .error "cut_lookup_miss"
    | some cut0 =>
      let cut := sortDedup cut0
      if cut = [] then .error "empty_cut"
      else if cut.all (fun x => decide (x ∈ B)) && !(seen.contains cut) then
        let subs := comps es (nodes.filter (fun x => decide (x ∉ cut)))
        if subs.all (fun c => c.length != 1) then
          if cut.length = 1 then .ok subs else splitLoop es nodes B cuts rest (cut :: seen) subs
        else splitLoop es nodes B cuts rest seen best
      else splitLoop es nodes B cuts rest seen best

/-- the leaves (sorted lists of protein nodes whose groups are merged) below one connected
    sub-graph.  Fuel: an accepted cut is non-empty and inside the sub-graph, so every re-queued
    sub-graph has fewer nodes; `nodes.length + 1` is always enough. -/
def decouple (es : List (String × String)) (cuts : CutMap) (isProt : String → Bool) :
    Nat → List String → Except String (List (List String))
  | 0 => fun _ => .error "fuel"
  | fuel + 1 => fun nodes =>
    let A := sortDedup (nodes.filter isProt)
    let B := sortDedup (nodes.filter (fun x => !isProt x))
    if A.length ≤ 1 then .ok [A]
    else
      match splitLoop es nodes B cuts (pairs A) [] [] with
      | .error e => .error e
      | .ok [] => .ok [A]
      | .ok (s :: subs) => collect (decouple es cuts isProt fuel) (s :: subs)

/-- all leaves of all connected components of the graph -/
def leaves (N : Groups) (filtered : List PepInfo) (cuts : CutMap) : Except String (List (List String)) :=
  let es := edges N filtered
  let ps := protNodes N filtered
  collect (fun c => decouple es cuts (fun x => decide (x ∈ ps)) (c.length + 1) c) (comps es (allNodes N filtered))

/-! ### merging the groups of a leaf (`merge_groups` on the stale index) -/

/-- `merge_groups(lead, prot)`: the positions come from the index built before any merge -/
def mergeGroups (idx : String → Option Nat) (gs : Groups) (lead prot : String) : Groups :=
  match idx lead, idx prot with
  | some i, some j => (gs.set i (gs.getD i [] ++ gs.getD j [])).set j []
  | _, _ => gs

def applyLeaf (idx : String → Option Nat) (gs : Groups) (leaf : List String) : Groups :=
  match leaf with
  | [] => gs
  | l :: rest => rest.foldl (fun acc p => mergeGroups idx acc l p) gs

def applyLeaves (idx : String → Option Nat) (gs : Groups) (lvs : List (List String)) : Groups :=
  lvs.foldl (applyLeaf idx) gs

/-- `remove_empty_groups` -/
def dropEmpty (gs : Groups) : Groups := gs.filter (fun g => !g.isEmpty)

/-- `get_rescued_protein_groups`, given the subset grouping `N` of the filtered peptides -/
def rescuedGroups (N : Groups) (filtered : List PepInfo) (cuts : CutMap) : Except String Groups :=
  match leaves N filtered cuts with
  | .error e => .error e
  | .ok lvs => .ok (dropEmpty (applyLeaves (idxOf N) N lvs))

/-! ### `add_unseen_protein_groups` -/

/-- what is left of a first-pass group: the members no rescued group contains -/
def remnant (known : List String) (g : List String) : List String :=
  g.filter (fun p => decide (p ∉ known))

/-- rescued groups followed by the non-empty remnants of the first-pass groups -/
def merged (new old : Groups) : Groups :=
  new ++ ((old.map (remnant new.flatten)).filter (fun r => !r.isEmpty))

/-- completely absorbed first-pass groups (with their peptide infos) -/
def absorbed {ι : Type} (new : Groups) (old : List (List String × ι)) : List (List String × ι) :=
  old.filter (fun g => (remnant new.flatten g.1).isEmpty)

def obsoleteName (p : String) : String := "OBSOLETE__" ++ p

structure RescueOut (ι : Type) where
  /-- the peptides below the cutoff -/
  filtered : List PepInfo
  /-- `get_rescued_protein_groups` -/
  rescued : Groups
  /-- return value of `merge_with_rescued_protein_groups`: rescued groups + remnants -/
  groups : Groups
  /-- `self.obsolete_protein_groups` -/
  obsolete : Groups
  /-- `self.obsolete_protein_group_peptide_infos` -/
  obsoleteInfos : List ι

/-- `merge_with_rescued_protein_groups` on an already filtered peptide list -/
def mergeWithRescued {ι : Type} (N : Groups) (old : List (List String × ι)) (filtered : List PepInfo)
    (cuts : CutMap) : Except String (RescueOut ι) :=
  match rescuedGroups N filtered cuts with
  | .error e => .error e
  | .ok new =>
    .ok { filtered := filtered
          rescued := new
          groups := merged new (old.map (·.1))
          obsolete := (absorbed new old).map (fun g => g.1.map obsoleteName)
          obsoleteInfos := (absorbed new old).map (·.2) }

/-! ### `_calculate_rescue_score_cutoff` -/

/-- `min` of a non-empty list -/
def minRat : List Rat → Option Rat
  | [] => none
  | a :: r =>
    match minRat r with
    | none => some a
    | some m => some (if a ≤ m then a else m)

/-- the protein score whose PEP equivalent `10^(−score)` becomes the cutoff: the worst (smallest)
    score among the first-pass rows `(score, q-value)` with `q < threshold`; if there is none, the
    worst score of all rows.  `none` when there are no rows (`min([])` raises in the code). -/
def rescueScore (rows : List (Rat × Rat)) (threshold : Rat) : Option Rat :=
  let acc := (rows.filter (fun r => decide (r.2 < threshold))).map (·.1)
  if acc.isEmpty then minRat (rows.map (·.1)) else minRat acc

/-- `rescue_protein_groups` after the cutoff has been computed: filter, regroup, merge.
    `N` must be the subset grouping of `filterByCutoff pil cutoff`. -/
def rescueGroupsN {ι : Type} (N : Groups) (old : List (List String × ι)) (pil : List PepInfo) (cutoff : Rat)
    (cuts : CutMap) : Except String (RescueOut ι) :=
  mergeWithRescued N old (filterByCutoff pil cutoff) cuts

/-- the same with the subset grouping as a function (for the pipeline model) -/
def rescueGroupsWith {ι : Type} (subset : List PepInfo → Groups) (old : List (List String × ι))
    (pil : List PepInfo) (cutoff : Rat) (cuts : CutMap) : Except String (RescueOut ι) :=
  rescueGroupsN (subset (filterByCutoff pil cutoff)) old pil cutoff cuts

/-- `ObservedPeptides.generate_protein_groups` on a peptide list: the subset grouping of `Model/C03.lean` -/
def subsetOf (f : List PepInfo) : Groups := C03.subsetGroups (f.map (fun x => (x.peptide, x.proteins)))

/-- the rescue stage as the pipeline calls it: `rescue_protein_groups` with the cutoff already computed;
    nothing but the cut oracle is a recorded parameter -/
def rescueGroups {ι : Type} (old : List (List String × ι)) (pil : List PepInfo) (cutoff : Rat)
    (cuts : CutMap) : Except String (RescueOut ι) :=
  rescueGroupsWith subsetOf old pil cutoff cuts

/-- `update_protein_groups`: the placeholders are appended for the second competition -/
def secondPassGroups {ι : Type} (out : RescueOut ι) : Groups := out.groups ++ out.obsolete

/-- `ProteinGroupResults.from_protein_groups`: groups that are `is_obsolete` are skipped -/
def reported (gs : Groups) : Groups := gs.filter (fun g => !isObsolete g)

/-- the model's input condition on the recorded subset grouping: every protein of a filtered
    peptide is in a group and no group is empty (the driver checks it) -/
def covers (N : Groups) (filtered : List PepInfo) : Bool :=
  filtered.all (fun x => x.proteins.all (fun p => (idxOf N p).isSome)) && N.all (fun g => !g.isEmpty)

end PgFdr.C04
