import PgFdr.Model.Cli
import PgFdr.Model.C12

/-!
Model of the `--do_quant --skip_lfq` path of `python -m picked_group_fdr` for MaxQuant evidence input:

  picked_group_fdr.run_method              the branch `if args.do_quant and score_type.can_do_quantification()`
  quantification.do_quantification         output format "auto" → MaxQuant writer; identifier rule; writer factory;
                                           `ProteinGroups.from_protein_group_results`; `add_precursor_quants`
  writers/factory.get_protein_groups_output_writer
      digest.get_protein_sequences(args.fasta, db, parse_id)                     `proteinSeqs`
      digest.get_num_ibaq_peptides_per_protein_from_args(args, maps)             `ibaqNumbers` (C09.numIbaqPeptides;
                                                                                  NO identifier rule is handed over)
  quant/maxquant.add_precursor_quants      `evidenceRows` (the rows as the quantification parser yields them, the
                                           protein list remapped through the digest map of the file's position —
                                           `C10.pairUp` / `C10.sourceProteins`, the very functions of ingestion) →
                                           `C12.quantify` (attachment, experiments, PEP list)
  writers/base.finalize_output             `C12.quantify` (groups without precursors dropped, PEP cutoff = C17.cutoff at
                                           `--psm_fdr_cutoff`, identified-precursor filter, the column loops),
  writers/maxquant.get_columns             `C13.Writer.maxquant true` (annotations, unique counts, identification type,
                                           summed intensity + iBAQ, sequence coverage, TMT if present, evidence ids)
  columns/sequence_coverage.py             `coverageCols`
  ProteinGroupResults.write                `C13.writeRecords` through the identity header dict

Nothing of a stage is re-modelled: the run of a method up to the reported rows is `Cli.runMethod` (whose rows are what
the C18 theorems speak about), the quantification is `C12.quantify`, header names / order / validity of the column
generators are `C13`, iBAQ numbers and FASTA reading are `C09`, annotations `C19`.

Cells are strings as handed to `csv.writer`, except that every cell the writer formats with `'%.0f'`
(`_format_extra_columns`) or `'%.1f'` (sequence coverage; the value BEFORE `* 100`) carries the exact rational as
`"num/den"`; the harness formats (half-even on the double).

Not modelled (the model answers `not_modelled:…`): LFQ (`--skip_lfq` absent), FragPipe / Sage / DIA-NN quantification
input, `--experimental_design_file` / `--file_list_file`, `--peptide_protein_map`, runs without `--protein_groups_out`
(`Cli.runMethod` answers "nothing written" before the quantification is looked at).
A table whose rows do not carry one cell per header is refused (`ragged`); unreachable: the value lists are sized by
the experiment list and the channel numbers of the FIRST parsed row, exactly as the header lists are — also when the
`--mq_evidence` files have different SILAC / reporter columns (`C12.quantify` follows the code there: it refuses the
run where a column loop raises, `silac_index_out_of_range` / `tmt_shape_mismatch`, and otherwise fills the slots as
the loops do; see Model/C12.lean "evidence files with different SILAC / reporter columns").

Executable, total, Mathlib-free.
-/
namespace PgFdr.CliQuant
open PgFdr.Cli

/-! ## input -/

/-- the cells of one evidence row that only the quantification parser reads
    (`parse_mq_evidence_file(for_quantification=True)`) -/
structure QCells where
  /-- `id` -/
  id : Int
  /-- `Charge` -/
  charge : Int
  /-- `Experiment` ("Experiment1" when the file has no such column) -/
  experiment : String
  /-- `Fraction` as text ("-1" when the file has no such column) -/
  fraction : String
  /-- `Intensity`: `none` = NaN, an empty cell is 0 -/
  intensity : Option Rat
  /-- `Intensity L [M] H` -/
  silac : List Rat
  /-- all `Reporter intensity …` columns in file order -/
  tmt : List Rat
deriving Inhabited

structure QuantInput where
  cli : CliInput
  /-- `--do_quant` -/
  doQuant : Bool
  /-- `--skip_lfq` -/
  skipLfq : Bool
  /-- per `--mq_evidence` file (by position), per data row (by position): the quantification cells -/
  cells : List (List QCells)
  /-- `false`: the code as it is — the iBAQ digest names the proteins by the DEFAULT identifier rule (first word of the
      header) whatever `--fasta_use_uniprot_id` / `--gene_level` say, so that under those flags no reported protein
      has an iBAQ peptide number.  `true`: the proposed repair (`fixes/C12-ibaq-identifier-rule.diff`): the run's
      identifier rule is handed to the iBAQ digest. -/
  ibaqRunRule : Bool := false

/-! ## the writer's inputs: protein sequences, iBAQ peptide numbers -/

/-- `if protein_id not in protein_sequences: protein_sequences[protein_id] = protein_sequence` -/
def addSeq (d : C09.SeqMap) (kv : C09.Str × C09.Str) : C09.SeqMap :=
  if d.any (fun x => x.1 = kv.1) then d else d ++ [kv]

def seqsGo (db : C09.Db) (parse : C09.ParseId) : List (List C09.Str) → C09.SeqMap → Except String C09.SeqMap
  | [], acc => .ok acc
  | f :: rest, acc =>
    let r := C09.readFasta db ['K', 'R'] parse f
    match r.2 with
    | some e => .error (c09ErrTag e)
    | none => seqsGo db parse rest (r.1.foldl addSeq acc)

/-- `digest.get_protein_sequences(args.fasta, db=…, parse_id=…)`: the first sequence per identifier; the decoys
    are generated with the DEFAULT special residues (`read_fasta`'s own default, not `--special-aas`) -/
def proteinSeqs (parse : C09.ParseId) (containsDecoys : Bool) : Option (List (List C09.Str)) → Except String C09.SeqMap
  | none => .ok []
  | some files => seqsGo (if containsDecoys then .target else .concat) parse files []

/-- `digest.get_num_ibaq_peptides_per_protein_from_args(args, peptide_to_protein_maps)`: every digestion parameter
    set of the command line, clamped to the iBAQ window, over every FASTA file; identifiers by the rule `parse`
    (`writers/factory.py` hands no `parse_id` over, so the code's rule is `.firstSpace`: `ibaqParse`) -/
def ibaqNumbers (parse : C09.ParseId) (inp : CliInput) : Except String (List (String × Nat)) :=
  match digestionParamsList inp.dig inp.containsDecoys with
  | .error e => .error e
  | .ok ps =>
    match inp.fasta with
    | none => .error C18.Err.missingFasta.tag
    | some [] => .error C18.Err.missingFasta.tag
    | some files =>
      match C09.numIbaqPeptides parse files ps with
      | .error e => .error (c09ErrTag e)
      | .ok l => .ok (l.map (fun kv => (String.ofList kv.1, kv.2)))

/-- the identifier rule of the iBAQ digest -/
def ibaqParse (q : QuantInput) (usePseudo : Bool) : C09.ParseId :=
  if q.ibaqRunRule then parseIdOf q.cli.geneLevel q.cli.useUniprot usePseudo else .firstSpace

/-! ## the evidence rows as the quantification parser yields them -/

/-- `float(cell) if len(cell) > 0 else nan` of the PEP column -/
def pepValOf : Option Rat → C17.PepVal
  | none => .nan
  | some x => .fin x

/-- one evidence row: the modified sequence without its flanking underscores, the protein list the mapper works on
    (digest proteins of the stripped peptide when the method remaps, `Leading proteins` / `Leading razor protein`
    otherwise; `C12.prots` then purges decoys from target lists and `C12.parsed` drops the rows without proteins),
    the PEP, the quantification cells -/
def quantRow (remap : Bool) (m : C10.DMap) (raw : C10.RawRow) (c : QCells) : C12.Row :=
  { id := c.id, peptide := C10.rowPeptide .maxquant false raw, charge := c.charge, experiment := c.experiment,
    fraction := c.fraction,
    leading := C10.sourceProteins remap m (C10.rowPeptide .maxquant false raw) (C10.rowProteins .maxquant raw),
    intensity := c.intensity, pep := pepValOf raw.score, silac := c.silac, tmt := c.tmt }

/-- `psm.parse_evidence_file_multiple(score_type.get_evidence_file(args), peptide_to_protein_maps, score_type,
    for_quantification=True)`: the files in the order of mention, each through the map of its position -/
def evidenceRows (q : QuantInput) (maps : List C10.DMap) (cfg : C18.Cfg) : List C12.Row :=
  ((C10.pairUp (modeOf cfg.origin q.cli.mokapot).remap maps
      (((evidenceOf q.cli cfg.input).getD []).map (rowsFor (modeOf cfg.origin q.cli.mokapot) cfg.razor))).zip q.cells).flatMap
    (fun p => (p.1.2.zip p.2).map (fun rc => quantRow (modeOf cfg.origin q.cli.mokapot).remap p.1.1 rc.1 rc.2))

/-- `ProteinGroups.from_protein_group_results`: `pgr.proteinIds.split(";")` -/
def groupOf (d : C06.RowData) : List String := C10.splitOn ";" (C06.render d).proteinIds

/-! ## sequence coverage -/

/-- `str.find`: the first position at which `pat` occurs (`none` = -1) -/
def findSub (pat : List Char) : List Char → Option Nat
  | [] => if pat.isEmpty then some 0 else none
  | c :: t => if pat.isPrefixOf (c :: t) then some 0 else (findSub pat t).map (· + 1)

/-- `coverage[pos : pos + len] = 1` with Python's slice rules: for `pos = -1` (peptide not found) the slice is
    `[-1 : len - 1]`, i.e. the last position if the peptide is longer than the sequence, nothing otherwise -/
def mark (cov : List Bool) (pos : Option Nat) (len : Nat) : List Bool :=
  match pos with
  | some p => cov.mapIdx (fun i b => b || (decide (p ≤ i) && decide (i < p + len)))
  | none => cov.mapIdx (fun i b => b || (decide (cov.length ≤ i + 1) && decide (i + 1 < len)))

def markAll (seq : List Char) (cov : List Bool) (peps : List String) : List Bool :=
  peps.foldl (fun cv p => mark cv (findSub p.toList seq) p.toList.length) cov

/-- `calculate_coverage_ratio` -/
def covRatio (cov : List Bool) : Rat :=
  if cov.isEmpty then 0 else ((cov.count true : Nat) : Rat) / ((cov.length : Nat) : Rat)

/-- `unique_peptides_per_experiment`: the stripped peptides of the used precursors of experiment position `e` -/
def coveragePeps (exps : List String) (c : Rat) (quants : List C12.Row) (e : Nat) : List String :=
  (quants.filter (fun q => C12.used c q && (C12.expIdx exps q.experiment == some e))).map
    (fun q => C10.removeMods q.peptide)

/-- `SequenceCoverageColumns.get_sequence_coverages` before `format_as_percentage`: three times the coverage of the
    leading protein's sequence by the peptides of all experiments, then one ratio per experiment (0 for an
    experiment without peptides) -/
def coverageCols (seqs : C09.SeqMap) (exps : List String) (c : Rat) (ids : List String) (quants : List C12.Row) :
    List Rat :=
  let seq := (C09.lookupSeq seqs (ids.headD "").toList).getD []
  let per := (List.range exps.length).map (coveragePeps exps c quants)
  let zero := List.replicate seq.length false
  let total := covRatio (per.foldl (markAll seq) zero)
  [total, total, total] ++ per.map (fun peps => if peps.isEmpty then 0 else covRatio (markAll seq zero peps))

/-! ## the written table -/

/-- `";".join(map(str, l))` -/
def joinSemi (l : List String) : String := String.intercalate ";" l

/-- the values the quantification column generators append to one row, in the writer's order
    (`MaxQuantProteinGroupsWriter.get_columns` with `skip_lfq`): unique peptide counts, identification types,
    `Intensity` + per experiment (and SILAC channel), `Number of theoretical peptides iBAQ`, `iBAQ` + per experiment,
    sequence coverage, reporter intensities (empty without TMT channels), evidence ids -/
def quantCells (seqs : C09.SeqMap) (exps : List String) (c : Rat) (o : C12.GroupOut) : List String :=
  o.counts.map toString ++ o.idType
    ++ [ratCell o.total] ++ o.intens.map ratCell
    ++ [joinSemi (o.nPeps.map toString)] ++ [ratCell o.ibaqTotal] ++ o.ibaq.map ratCell
    ++ (coverageCols seqs exps c o.ids o.quants).map ratCell
    ++ o.tmt.map ratCell
    ++ [joinSemi (o.evidenceIds.map toString)]

/-- one written row: the reported row it stems from (position `g` among the rows the inference returned) and the
    values of its quantification columns -/
structure QLine where
  g : Nat
  base : C06.RowData
  out : C12.GroupOut

/-- the rows left after `remove_protein_groups_without_precursors`, in the reported order -/
def quantLines (baseRows : List C06.RowData) (kept : List Nat) (outs : List C12.GroupOut) : List QLine :=
  (kept.zip outs).map (fun p => { g := p.1, base := baseRows.getD p.1 default, out := p.2 })

/-- nine base cells, three annotation cells, the quantification cells -/
def lineRow (ann : C19.Dict) (seqs : C09.SeqMap) (exps : List String) (c : Rat) (l : QLine) : C13.Row :=
  { cliRow ann l.base with extra := (cliRow ann l.base).extra ++ quantCells seqs exps c l.out }

/-- the attributes of the `ProteinGroupResults` the column generators look at (no `--file_list_file`: the Triqler
    generator is invalid) -/
def ctxOf (o : C12.Output) : C13.Ctx := { experiments := o.experiments, silac := o.nSilac, tmt := o.nTmt }

/-- the header list the MaxQuant writer's generators build (`skip_lfq`) -/
def quantHeaders (ctx : C13.Ctx) : Except String (List String) :=
  match C13.applyAll ctx (C13.Table.init []) (C13.Writer.maxquant true).columns with
  | .error e => .error e.toString
  | .ok t => .ok t.headers

/-- `ProteinGroupsWriter.write`: the records handed to `csv.writer` (header first) -/
def renderQuant (ctx : C13.Ctx) (rows : List C13.Row) : Except String (List (List String)) :=
  match quantHeaders ctx with
  | .error e => .error e
  | .ok hs =>
    if rows.all (fun r => 9 + r.extra.length == hs.length) then
      match C13.writeRecords { headers := hs, rows := rows }
              (some ((C13.Writer.maxquant true).headerDict ctx { headers := hs, rows := rows })) with
      | .error e => .error e.toString
      | .ok recs => .ok recs
    else .error "ragged"

/-! ## reading a table by header name; the table of a stand-alone quantification run -/

/-- the cell of a written record in the column whose header is `h` (`row[headers.index(h)]`; the header list of a
    written table is duplicate-free, so this is what `dict(zip(headers, row))[h]` / `csv.DictReader` return) -/
def cellUnder (hs row : List String) (h : String) : Option String :=
  if h ∈ hs then row[hs.idxOf h]? else none

/-- the table of a quantification run given by its `C12.Output` — the stand-alone
    `python -m picked_group_fdr.quantification`, with or without `--experimental_design_file` / `--file_list_file`
    (`C12.quantifyDesign`): the header list the MaxQuant writer's generators build for the run's experiment list and
    channel numbers, and one record per written group: `pre g` — the nine base cells and the three annotation cells,
    which that command copies from the input proteinGroups.txt / the FASTA and C12 does not model — followed by the
    quantification cells in the writer's order -/
def outputTable (pre : C12.GroupOut → List String) (seqs : C09.SeqMap) (o : C12.Output) :
    Except String (List String × List (List String)) :=
  match quantHeaders (ctxOf o) with
  | .error e => .error e
  | .ok hs => .ok (hs, o.groups.map (fun g => pre g ++ quantCells seqs o.experiments o.cutoff g))

/-- everything the quantification of one method computed -/
structure QuantPart where
  /-- the evidence rows as the quantification parser yields them -/
  rows : List C12.Row
  /-- the reported groups (`proteinIds.split(";")` of the rows the inference returned) -/
  groups : List (List String)
  /-- `num_ibaq_peptides_per_protein` -/
  ibaq : List (String × Nat)
  /-- `protein_sequences` -/
  seqs : C09.SeqMap
  /-- `add_precursor_quants` + `append_quant_columns` -/
  out : C12.Output
  /-- the written rows -/
  lines : List QLine

/-- the quantification branch of `run_method` + `finalize_output` for a MaxQuant method, given the rows the inference
    returned: the computed parts and the records handed to `csv.writer` -/
def quantPart (q : QuantInput) (env : Env) (cfg : C18.Cfg) (baseRows : List C06.RowData) :
    Except String (QuantPart × List (List String)) :=
  if !q.skipLfq then .error "not_modelled:lfq"
  else if !(cfg.origin == .mq || cfg.origin == .mqNoRemap) then .error "not_modelled:quant_input"
  else
    match proteinSeqs (parseIdOf q.cli.geneLevel q.cli.useUniprot env.usePseudo) q.cli.containsDecoys q.cli.fasta with
    | .error e => .error e
    | .ok seqs =>
      match ibaqNumbers (ibaqParse q env.usePseudo) q.cli with
      | .error e => .error e
      | .ok ibaq =>
        match C12.quantify (evidenceRows q env.maps cfg) (baseRows.map groupOf) q.cli.psm ibaq with
        | .error e => .error e
        | .ok o =>
          match renderQuant (ctxOf o)
              ((quantLines baseRows (C12.keptIdx (evidenceRows q env.maps cfg) (baseRows.map groupOf)) o.groups).map
                (lineRow env.ann seqs o.experiments o.cutoff)) with
          | .error e => .error e
          | .ok recs =>
            .ok ({ rows := evidenceRows q env.maps cfg, groups := baseRows.map groupOf, ibaq := ibaq, seqs := seqs,
                   out := o,
                   lines := quantLines baseRows (C12.keptIdx (evidenceRows q env.maps cfg) (baseRows.map groupOf)) o.groups },
                 recs)

/-- one written table of a run with the quantification flags -/
structure QTable where
  /-- the method's run up to the reported rows (everything `Cli.runMethod` computes; `base.records` is the table
      the minimal writer would have written) -/
  base : CliTable
  /-- `none`: no quantification for this method (`--do_quant` absent, or a Percolator method) -/
  quant : Option QuantPart
  /-- the records handed to `csv.writer`, header first -/
  records : List (List String)

/-- `run_method` with the quantification flags -/
def runMethodQ (q : QuantInput) (env : Env) (several : Bool) (name : String) (cfg : C18.Cfg) (rec : MethodRec) :
    Except String (Option QTable) :=
  match Cli.runMethod q.cli env several name cfg rec with
  | .error e => .error e
  | .ok none => .ok none
  | .ok (some t) =>
    if q.doQuant && cfg.origin.canQuantify then
      match quantPart q env cfg t.rows with
      | .error e => .error e
      | .ok pr => .ok (some { base := t, quant := some pr.1, records := pr.2 })
    else .ok (some { base := t, quant := none, records := t.records })

/-- `for method_config in method_configs: run_method(…)` -/
def loopQ (q : QuantInput) (env : Env) (several : Bool) :
    List (String × C18.Cfg × MethodRec) → List (Option QTable) × Option String
  | [] => ([], none)
  | it :: rest =>
    match runMethodQ q env several it.1 it.2.1 it.2.2 with
    | .error e => ([], some e)
    | .ok o => (o :: (loopQ q env several rest).1, (loopQ q env several rest).2)

/-- `run_picked_group_fdr(args)` with the quantification flags: what every method wrote, in order, and the error (if
    any) the run ended with -/
def quantOutcome (q : QuantInput) : List (Option QTable) × Option String :=
  match setup q.cli with
  | .error e => ([], some e)
  | .ok (env, cfgs) => loopQ q env (decide (cfgs.length > 1)) (items q.cli cfgs)

/-- a run that completed: the tables written, in order -/
def quantRun (q : QuantInput) : Except String (List QTable) :=
  match quantOutcome q with
  | (os, none) => .ok (os.filterMap id)
  | (_, some e) => .error e

end PgFdr.CliQuant
