/-
Model of the rescoring merge (picked_group_fdr/pipeline/update_evidence_from_pout.py, Andromeda-style
identifiers) together with the pieces of parsers/percolator.py, parsers/maxquant.py and parsers/tsv.py
it runs through:

  get_percolator_results / parse_percolator_out_file_to_dict   → `buildResults` (dict of dicts, later rows overwrite)
  parse_andromeda_psmid_and_peptide                            → `parseResultRow`
  get_percolator_column_idxs (native / mokapot / ms2rescore)   → `percCols`
  initialize_headers, tsv.get_column_index                     → `cols`, `updateSingle`
  parse_evidence_file_for_percolator_matching                  → `psmOf`
  update_evidence_single row rule, process_percolator_result   → `rule`
  update_evidence_files                                        → `merge`

Files are lists of rows, rows are lists of string fields (the csv layer is outside this model; the
harness reads and writes the real files with the same dialect).  Scores and PEPs of the result
files are carried as the strings the implementation writes (`repr(float(field))`, computed by the
harness).  Executable, total, Mathlib-free.
-/
import PgFdr.Model.Basic
import PgFdr.Model.C13

namespace PgFdr.C15

abbrev Row := List String

/-! ### Python string pieces -/

/-- `s.split(sep)` for a one-character separator (never returns the empty list) -/
def splitOn (sep : Char) : List Char → List (List Char)
  | [] => [[]]
  | c :: cs =>
    if c = sep then [] :: splitOn sep cs
    else match splitOn sep cs with
      | [] => [[c]]
      | h :: t => (c :: h) :: t

/-- `sep.join(parts)` -/
def joinChars (sep : Char) : List (List Char) → List Char
  | [] => []
  | [x] => x
  | x :: xs => x ++ sep :: joinChars sep xs

def digitVal (c : Char) : Option Nat :=
  if '0' ≤ c ∧ c ≤ '9' then some (c.toNat - '0'.toNat) else none

/-- decimal digits, most significant first, accumulator style -/
def parseDigits : Nat → List Char → Option Nat
  | acc, [] => some acc
  | acc, c :: cs => match digitVal c with
    | none => none
    | some d => parseDigits (acc * 10 + d) cs

/-- Python `int(s)` on the inputs the model covers: optional sign, then one or more ASCII digits
    (leading zeros allowed).  Anything else is rejected (`none`); Python additionally accepts
    surrounding white space, `_` between digits and non-ASCII digits — outside the model. -/
def parseInt? (cs : List Char) : Option Int :=
  match cs with
  | [] => none
  | '-' :: ds => if ds.isEmpty then none else (parseDigits 0 ds).map (fun n => -(n : Int))
  | '+' :: ds => if ds.isEmpty then none else (parseDigits 0 ds).map (fun n => (n : Int))
  | ds => (parseDigits 0 ds).map (fun n => (n : Int))

/-- `s[a:-b]` for `a, b ≥ 0` written as drop / dropLast (empty when the string is too short) -/
def slice (a b : Nat) (s : String) : String :=
  let t := s.toList.drop a
  String.ofList (t.take (t.length - b))

/-- `str.lower()` on ASCII -/
def lower (s : String) : String := String.ofList (s.toList.map Char.toLower)

/-- `l[:-3]` -/
def dropLast3 {α} (l : List α) : List α := l.take (l.length - 3)

/-! ### The results dictionary -/

/-- `(scan number, modified sequence)` -/
abbrev Key := Int × String
/-- `(score, PEP)` as the strings the implementation writes -/
abbrev Val := String × String
abbrev Inner := List (Key × Val)
/-- `ResultsDict`: raw file ↦ (scan, modified sequence) ↦ (score, PEP), in insertion order -/
abbrev Results := List (String × Inner)

/-- `d[k] = v` on an insertion-ordered dict: overwrite in place, else append -/
def insertKV {κ ν} [DecidableEq κ] (k : κ) (v : ν) : List (κ × ν) → List (κ × ν)
  | [] => [(k, v)]
  | (k', v') :: t => if k' = k then (k', v) :: t else (k', v') :: insertKV k v t

def lookupKV {κ ν} [DecidableEq κ] (k : κ) : List (κ × ν) → Option ν
  | [] => none
  | (k', v') :: t => if k' = k then some v' else lookupKV k t

/-- `results_dict[raw][key] = val` on a `defaultdict(dict)` -/
def insertRes (res : Results) (raw : String) (key : Key) (val : Val) : Results :=
  insertKV raw (insertKV key val ((lookupKV raw res).getD [])) res

/-- `results_dict.get(raw, {}).get(key)` -/
def lookupRes (res : Results) (raw : String) (key : Key) : Option Val :=
  match lookupKV raw res with
  | none => none
  | some inner => lookupKV key inner

/-- one data row of a Percolator / mokapot result file, reduced to the four columns that are read -/
structure ResultRow where
  psmId : String
  peptide : String      -- with flanks, e.g. `-.AAM[16]K.-`
  score : String        -- the string written for `float(score field)`
  pep : String
deriving Repr, DecidableEq, Inhabited

/-- what `parse_andromeda_psmid_and_peptide` extracts (plus the values) -/
structure ParsedResult where
  raw : String
  scan : Int
  modSeq : String
  val : Val
deriving Repr, DecidableEq, Inhabited

/-- `modified_sequence.replace("[42]", "(ac)").replace("M[16]", "M(ox)")` on `peptide[2:-2]` -/
def resultModSeq (peptide : String) : String :=
  strReplace (strReplace (slice 2 2 peptide) "[42]" "(ac)") "M[16]" "M(ox)"

/-- `parse_andromeda_psmid_and_peptide`: `filename = "_".join(parts[:-3])`, `scan = int(parts[-3])` -/
def parseResultRow (r : ResultRow) : Except String ParsedResult :=
  let parts := splitOn '_' r.psmId.toList
  if parts.length < 3 then .error "bad_psmid"      -- IndexError on `parts[-3]`
  else
    match parseInt? (parts.getD (parts.length - 3) []) with
    | none => .error "bad_scan"                    -- ValueError in `int(...)`
    | some scan =>
      .ok { raw := String.ofList (joinChars '_' (dropLast3 parts)), scan := scan,
            modSeq := resultModSeq r.peptide, val := (r.score, r.pep) }

def insertParsed (res : Results) (p : ParsedResult) : Results :=
  insertRes res p.raw (p.scan, p.modSeq) p.val

/-- `get_percolator_results`: all rows of all files in order, later rows overwrite -/
def buildResults (files : List (List ResultRow)) : Except String Results := do
  let parsed ← files.flatten.mapM parseResultRow
  pure (parsed.foldl insertParsed [])

/-! ### Column lookup -/

/-- `headers.index(name)` / `name in headers` -/
def indexOf? (name : String) : List String → Option Nat
  | [] => none
  | h :: t => if h = name then some 0 else (indexOf? name t).map (· + 1)

/-- `tsv.get_column_index(headers, name)`: ValueError when absent -/
def colIdx (hdr : Row) (name : String) : Except String Nat :=
  match indexOf? name hdr with
  | some i => .ok i
  | none => .error "missing_column"

structure Cols where
  score : Nat
  pep : Nat
  raw : Nat
  scan : Nat
  modSeq : Nat
  idType : Nat
  reverse : Nat
  contaminant : Nat
  labeling : Option Nat
deriving Repr, DecidableEq

/-- the columns `update_evidence_single` and `parse_evidence_file_for_percolator_matching` resolve
    (on the lower-cased header) -/
def cols (hdr : Row) : Except String Cols := do
  let score ← colIdx hdr "score"
  let pep ← colIdx hdr "pep"
  let raw ← colIdx hdr "raw file"
  let scan ← match indexOf? "ms/ms scan number" hdr with
    | some i => pure i
    | none => colIdx hdr "scan number"
  let modSeq ← colIdx hdr "modified sequence"
  let idType ← colIdx hdr "type"
  let reverse ← colIdx hdr "reverse"
  let contaminant ← colIdx hdr "potential contaminant"
  pure { score, pep, raw, scan, modSeq, idType, reverse, contaminant,
         labeling := indexOf? "labeling state" hdr }

/-! ### One evidence row -/

/-- what the merge needs to know about one evidence row (`maxquant.EvidenceRow`) -/
structure Psm where
  raw : String
  scan : Option Int          -- `none` = match-between-runs row (empty scan number, encoded as −1 in the code)
  modSeq : String            -- modified sequence without the flanking underscores (`psm.peptide[1:-1]`)
deriving Repr, DecidableEq, Inhabited

def field (row : Row) (i : Nat) : Except String String :=
  match row[i]? with
  | some x => .ok x
  | none => .error "short_row"                     -- IndexError

/-- the scan-number cell of `parse_evidence_file_for_percolator_matching`:
    `scanNr = -1; if len(row[scannr_col]) > 0: scanNr = int(row[scannr_col])` — an empty cell is a
    match-between-runs row (encoded −1 in the code, `none` here); a cell that reads −1 is the same
    encoding.  NOTHING else takes part in the classification: in particular not the `Type` cell. -/
def scanOfCell (scanF : String) : Except String (Option Int) :=
  if scanF.isEmpty then .ok none else
    match parseInt? scanF.toList with
    | none => .error "bad_scan"
    | some i => .ok (if i = -1 then none else some i)

/-- the optional `Labeling State` cell must be empty or an integer -/
def checkLabeling (c : Cols) (row : Row) : Except String Unit :=
  match c.labeling with
  | none => .ok ()
  | some l =>
    match row[l]? with
    | none => .error "short_row"
    | some lf =>
      if lf.isEmpty then .ok () else
        match parseInt? lf.toList with
        | none => .error "bad_labeling_state"
        | some _ => .ok ()

/-- `parse_evidence_file_for_percolator_matching` for one row: every resolved column is read
    (the `Type` cell too — `id_type=row[id_type_col]` — but only for the log statistics) -/
def psmOf (c : Cols) (row : Row) : Except String Psm := do
  let scanF ← field row c.scan
  let scan ← scanOfCell scanF
  checkLabeling c row
  let raw ← field row c.raw
  let _ ← field row c.score
  let _ ← field row c.pep
  let pepF ← field row c.modSeq
  let _ ← field row c.reverse
  let _ ← field row c.contaminant
  let _ ← field row c.idType
  pure { raw, scan, modSeq := slice 1 1 pepF }

/-- the code's classification of an evidence row, read off the row: a match-between-runs row is a row
    whose scan-number cell (`MS/MS scan number`, else `Scan number`) is empty (or reads −1, the
    code's own encoding of "no scan") -/
def isMbrRow (c : Cols) (row : Row) : Bool :=
  match row[c.scan]? with
  | none => false
  | some f => f.isEmpty || parseInt? f.toList == some (-1)

/-- one row of `update_evidence_single`:
    MBR ↦ unchanged | raw file absent ↦ dropped | key found ↦ row[score, pep := rescored] | else dropped;
    with an empty results dictionary every row is kept -/
def rule (res : Results) (scoreCol pepCol : Nat) (row : Row) (p : Psm) : Option Row :=
  if res.isEmpty then some row
  else match p.scan with
    | none => some row                                   -- MBR rows pass through
    | some scan =>
      match lookupKV p.raw res with
      | none => none                                     -- raw file absent from the results
      | some inner =>
        if inner.isEmpty then none
        else match lookupKV (scan, p.modSeq) inner with
          | none => none                                 -- no rescored PSM for this row
          | some (s, e) => some ((row.set scoreCol s).set pepCol e)

def processRow (res : Results) (c : Cols) (row : Row) : Except String (Option Row) := do
  let p ← psmOf c row
  pure (rule res c.score c.pep row p)

/-! ### Files -/

/-- `update_evidence_single`: returns the rows written and the lower-cased header
    (`first_headers` of the next call).  The header is written iff `first_headers` is empty. -/
def updateSingle (res : Results) (file : List Row) (firstHeaders : Row) : Except String (List Row × Row) :=
  match file with
  | [] => .error "no_header"                        -- `next(reader)` on an empty file
  | hdrOrig :: rows => do
    let hdr := hdrOrig.map lower
    let pre := if firstHeaders.isEmpty then [hdrOrig] else []
    let c ← cols hdr
    let outs ← rows.mapM (processRow res c)
    pure (pre ++ outs.filterMap id, hdr)

/-- the loop of `update_evidence_files` -/
def mergeAux (res : Results) : List (List Row) → Row → Except String (List Row)
  | [], _ => pure []
  | f :: fs, fh => do
    let (o, h) ← updateSingle res f fh
    let r ← mergeAux res fs h
    pure (o ++ r)

/-- `update_evidence_files(evidence_files, pout_files, out, "auto", "andromeda")`: the rows of the output file -/
def merge (resultFiles : List (List ResultRow)) (files : List (List Row)) : Except String (List Row) := do
  let res ← buildResults resultFiles
  mergeAux res files []

/-- the rule for one data row under the (original) header of its file; `none` = dropped -/
def rowRule (res : Results) (hdrOrig : Row) (row : Row) : Option Row :=
  match cols (hdrOrig.map lower) with
  | .error _ => none
  | .ok c => match psmOf c row with
    | .error _ => none
    | .ok p => rule res c.score c.pep row p

/-! ### Result-file header resolution (`percolator.get_percolator_column_idxs`) -/

structure PercCols where
  id : Nat
  peptide : Nat
  score : Nat
  pep : Nat
  /-- `get_header_col("filename")` (not required: `none` = the code's −1).  The cell is READ for every
      row when the column exists; its value is used by the prosit branch only. -/
  filename : Option Nat := none
deriving Repr, DecidableEq

/-- native Percolator (`psmid`), mokapot (`specid`), ms2rescore (`spectrum_id`); all `required`
    columns are resolved (a missing one is a ValueError) although only four are read here -/
def percCols (hdrOrig : Row) : Except String PercCols :=
  let hdr := hdrOrig.map lower
  if hdr.contains "psmid" then do
    let id ← colIdx hdr "psmid"
    let peptide ← colIdx hdr "peptide"
    let score ← colIdx hdr "score"
    let _ ← colIdx hdr "q-value"
    let pep ← colIdx hdr "posterior_error_prob"
    let _ ← colIdx hdr "proteinids"
    pure { id, peptide, score, pep, filename := indexOf? "filename" hdr }
  else if hdr.contains "specid" then do
    let id ← colIdx hdr "specid"
    let peptide ← colIdx hdr "peptide"
    let score ← colIdx hdr "mokapot score"
    let _ ← colIdx hdr "mokapot q-value"
    let pep ← colIdx hdr "mokapot pep"
    let _ ← colIdx hdr "proteins"
    pure { id, peptide, score, pep, filename := indexOf? "filename" hdr }
  else if hdr.contains "spectrum_id" then
    .error "ms2rescore_not_modelled"
  else .error "unknown_result_format"

/-- the cells `parse_percolator_out_file_to_dict` reads from one data row — a result row as a
    header-indexed record reduced to the columns that are looked at: `peptide`, score, PEP, the
    optional `filename` column (`""` when the file has none) and the identifier -/
structure ResultCells where
  psmId : String
  peptide : String
  score : String
  pep : String
  filename : String
deriving Repr, DecidableEq, Inhabited

/-- `filename = ""; if filename_col >= 0: filename = row[filename_col]` -/
def filenameCell (c : PercCols) (r : Row) : Except String String :=
  match c.filename with
  | none => .ok ""
  | some f => field r f

/-- order of evaluation in `parse_percolator_out_file_to_dict`: peptide, score, pep, filename, id
    (each a possible IndexError on a short row) -/
def rowCells (c : PercCols) (r : Row) : Except String ResultCells := do
  let peptide ← field r c.peptide
  let score ← field r c.score
  let pep ← field r c.pep
  let filename ← filenameCell c r
  let psmId ← field r c.id
  pure { psmId, peptide, score, pep, filename }

/-- what the andromeda branch hands to `parse_andromeda_psmid_and_peptide`: NOT the filename cell -/
def ResultCells.andromeda (x : ResultCells) : ResultRow :=
  { psmId := x.psmId, peptide := x.peptide, score := x.score, pep := x.pep }

/-- a raw result file (header + rows of fields, score/PEP already in written form) → the cells read -/
def resultCellsOf (file : List Row) : Except String (List ResultCells) :=
  match file with
  | [] => .error "no_header"
  | hdr :: rows => do
    let c ← percCols hdr
    rows.mapM (rowCells c)

/-- a raw result file (header + rows of fields, score/PEP already in written form) → `ResultRow`s
    (`--pout_input_type andromeda`, the default) -/
def resultRowsOf (file : List Row) : Except String (List ResultRow) :=
  match file with
  | [] => .error "no_header"
  | hdr :: rows => do
    let c ← percCols hdr
    rows.mapM (fun r => do
      let x ← rowCells c r
      pure x.andromeda)

/-- `merge` from raw result files -/
def mergeRaw (resultFiles : List (List Row)) (files : List (List Row)) : Except String (List Row) := do
  let rfs ← resultFiles.mapM resultRowsOf
  merge rfs files

/-! ### The csv layer of the evidence files (`parsers/tsv.py`)

`get_tsv_reader` = `csv.reader(open(f, newline="", encoding="utf-8-sig"), delimiter="\t")` and
`get_tsv_writer` = `csv.writer(open(f, "w", newline=""), delimiter="\t")`, both with the default
dialect (quotechar '"', doublequote, QUOTE_MINIMAL, "\r\n").  That dialect is modelled once, for
C13 (`C13.parseText`: the character machine of `_csv.c`; `C13.formatRows`): reused here. -/

/-- `list(get_tsv_reader(f))` on the decoded text of an evidence file -/
def readTsv (text : List Char) : List Row := C13.parseText text

/-- what `get_tsv_writer(f).writerow` leaves in the file for these records -/
def writeTsv (rows : List Row) : List Char := C13.formatRows rows

/-- `update_evidence_files` from the TEXT of the evidence files to the TEXT of the output file
    (result files as rows: header first) -/
def mergeTextRaw (resultFiles : List (List Row)) (texts : List (List Char)) : Except String (List Char) := do
  let out ← mergeRaw resultFiles (texts.map readTsv)
  pure (writeTsv out)

/-! ### The two identifier conventions of `parse_percolator_out_file_to_dict` (`--pout_input_type`)

`andromeda` (default): `parse_andromeda_psmid_and_peptide(psm_id, peptide[2:-2])` — raw file, scan and
sequence from the identifier and the peptide cell ALONE (`andromedaKey`).
`prosit`: `parse_prosit_psmid_and_peptide(psm_id, peptide[2:-2], filename, convert_to_proforma)` — the
`filename` cell IS the raw file when it is not empty, and it fixes where the scan number sits in the
dash-separated identifier. -/

/-- the key the andromeda branch files a result row under: a function of the identifier and the
    peptide cell, of nothing else -/
def andromedaKey (psmId peptide : String) : Except String (String × Int × String) :=
  let parts := splitOn '_' psmId.toList
  if parts.length < 3 then .error "bad_psmid"
  else
    match parseInt? (parts.getD (parts.length - 3) []) with
    | none => .error "bad_scan"
    | some scan => .ok (String.ofList (joinChars '_' (dropLast3 parts)), scan, resultModSeq peptide)

/-- `s.count(c)` for a one-character `c` -/
def countChar (c : Char) (s : List Char) : Nat := (s.filter (· = c)).length

/-- Python `l[i]` for any integer `i` (`none` = IndexError) -/
def pyIndex {α} (l : List α) (i : Int) : Option α :=
  if i < 0 then (if (l.length : Int) + i < 0 then none else l[((l.length : Int) + i).toNat]?)
  else l[i.toNat]?

/-- Python `l[:i]` for any integer `i` -/
def pySliceTo {α} (l : List α) (i : Int) : List α :=
  if i < 0 then l.take ((l.length : Int) + i).toNat else l.take i.toNat

/-- Python `int(float(s))` on the inputs the model covers: optional sign, one or more ASCII digits,
    optionally `.` and further digits (cut off: truncation toward zero).  Exponents, `inf`, `nan`,
    white space, `_`, a missing integer part and integers beyond 2^53 are outside the model. -/
def parseIntFloat? (cs : List Char) : Option Int :=
  let (sign, body) : Int × List Char := match cs with
    | '-' :: t => (-1, t)
    | '+' :: t => (1, t)
    | t => (1, t)
  let ip := body.takeWhile (· ≠ '.')
  let rest := body.dropWhile (· ≠ '.')
  if ip.isEmpty then none else
    match parseDigits 0 ip with
    | none => none
    | some n =>
      match rest with
      | [] => some (sign * n)
      | _ :: frac => (parseDigits 0 frac).map (fun _ => sign * n)

def prositPrefixes : List (List Char) :=
  ["[UNIMOD:737]", "[UNIMOD:2016]", "[UNIMOD:214]", "[UNIMOD:730]"].map String.toList

/-- `rest` when `p` is a prefix of `s` -/
def stripPrefix? : List Char → List Char → Option (List Char)
  | [], s => some s
  | _ :: _, [] => none
  | a :: p, b :: s => if a = b then stripPrefix? p s else none

/-- the alternative `(m)` of the regular expression: every `m` becomes `M[UNIMOD:35]` -/
def mapOxM : List Char → List Char
  | [] => []
  | c :: t => if c = 'm' then "M[UNIMOD:35]".toList ++ mapOxM t else c :: mapOxM t

/-- `modifications.prosit_mod_to_proforma()(s)`: `re.sub` with
    `(m)|(^\[UNIMOD:737\]-?)|(^\[UNIMOD:2016\]-?)|(^\[UNIMOD:214\]-?)|(^\[UNIMOD:730\]-?)` —
    an N-terminal label at the very start gets exactly one `-` after it, every `m` is oxidised M -/
def prositToProforma (s : List Char) : List Char :=
  match prositPrefixes.findSome? (fun p => (stripPrefix? p s).map (fun rest => (p, rest))) with
  | some (p, rest) => p ++ '-' :: mapOxM (match rest with | '-' :: r => r | r => r)
  | none => mapOxM s

/-- the key the prosit branch files a result row under: reads the identifier, the peptide cell and
    the `filename` cell (`parse_prosit_psmid_and_peptide`) -/
def prositKey (psmId peptide filename : String) : Except String (String × Int × String) :=
  let m := (slice 2 2 peptide).toList                 -- `row[pept_col][2:-2]`
  let dm : Int := countChar '-' m
  let numFields : Int :=
    if filename.isEmpty then 5
    else (countChar '-' psmId.toList : Int) - countChar '-' filename.toList - dm + 1
  let idx : Int := -1 * (numFields - 1) - dm
  let parts := splitOn '-' psmId.toList
  match pyIndex parts idx with
  | none => .error "bad_psmid"                         -- IndexError
  | some tok =>
    match parseIntFloat? tok with
    | none => .error "bad_scan"                        -- ValueError in `float(...)`
    | some scan =>
      let raw := if filename.isEmpty then String.ofList (joinChars '-' (pySliceTo parts idx)) else filename
      .ok (raw, scan, String.ofList (prositToProforma m))

def parsedOfKey (k : String × Int × String) (val : Val) : ParsedResult :=
  { raw := k.1, scan := k.2.1, modSeq := k.2.2, val := val }

/-- one result row under the identifier convention given (`prosit = true` ⇔ `input_type == "prosit"`;
    every other value of `--pout_input_type` takes the andromeda branch) -/
def parseCells (prosit : Bool) (x : ResultCells) : Except String ParsedResult :=
  if prosit then (prositKey x.psmId x.peptide x.filename).map (parsedOfKey · (x.score, x.pep))
  else parseResultRow x.andromeda

/-- one file of `parse_percolator_out_file_to_dict`: header resolution, then row by row the cells and
    the identifier (the first malformed row stops the file with ITS error) -/
def parsedRowsOf (prosit : Bool) (file : List Row) : Except String (List ParsedResult) :=
  match file with
  | [] => .error "no_header"
  | hdr :: rows => do
    let c ← percCols hdr
    rows.mapM (fun r => do
      let x ← rowCells c r
      parseCells prosit x)

/-- `get_percolator_results(pout_files, pout_input_type)[1]`: the dictionary, from the raw files
    (file by file, row by row — also for the error that is raised first) -/
def buildResultsOf (prosit : Bool) (files : List (List Row)) : Except String Results := do
  let parsed ← files.mapM (parsedRowsOf prosit)
  pure (parsed.flatten.foldl insertParsed [])

def fixedModsUnimod : List (List Char) := prositPrefixes  -- FIXED_MODS_UNIMOD: TMT, TMTpro, iTRAQ4, iTRAQ8

/-- the fixed-modification detection of one file (prosit branch): the first row selects the LAST label of
    `FIXED_MODS_UNIMOD` it contains, any later row without that label resets to "none".
    Result = index into `FIXED_MODS_DICTS` (0 = default). -/
def fixedModIdx (modSeqs : List (List Char)) : Nat :=
  match modSeqs with
  | [] => 0
  | first :: later =>
    let pick := (fixedModsUnimod.zipIdx.filter (fun (u, _) => containsSub u first)).getLast?.map (fun (_, i) => i + 1)
    match pick with
    | none => 0
    | some k =>
      let u := fixedModsUnimod.getD (k - 1) []
      -- `elif fixed_mod_idx >= 0: if MOD not in seq: fixed_mod_idx = -1` — once reset it stays reset
      if later.all (fun s => containsSub u s) then k else 0

/-- `parse_percolator_out_file_to_dict(file, …, input_type)[0]` as an index into `FIXED_MODS_DICTS`
    (defined when the file parses) -/
def fixedModsOf (prosit : Bool) (file : List Row) : Except String Nat := do
  let cs ← resultCellsOf file
  let parsed ← cs.mapM (parseCells prosit)
  pure (if prosit then fixedModIdx (parsed.map (·.modSeq.toList)) else 0)

/-- the cells of a result row that the andromeda branch reads, in two layouts of the same data:
    identifier, peptide, score, PEP agree; a `filename` column, where one exists, is only required to
    be THERE (the row reaches it) — its value is free -/
def SameReadCells (c c' : PercCols) (r r' : Row) : Prop :=
  r[c.id]? = r'[c'.id]? ∧ r[c.peptide]? = r'[c'.peptide]? ∧ r[c.score]? = r'[c'.score]? ∧ r[c.pep]? = r'[c'.pep]? ∧
  (∀ f, c.filename = some f → f < r.length) ∧ (∀ f, c'.filename = some f → f < r'.length)

end PgFdr.C15
