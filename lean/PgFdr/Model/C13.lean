/-
Model of the protein-group output tables of picked_group_fdr (property C13).

  results.py          ProteinGroupResults.{__init__, append_header(s), write}, ProteinGroupResult.to_list
  columns/base.py     ProteinGroupColumns.append  (is_valid → append_headers → append_columns)
  columns/*.py        one header function and one value-shape function per column generator
  writers/*.py        get_columns / get_header_dict / append_quant_columns / write of the MaxQuant,
                      DIA-NN and minimal writers
  parsers/tsv.py      the csv dialect the repository selects: delimiter TAB, quotechar '"',
                      doublequote, QUOTE_MINIMAL, lineterminator "\r\n"; reader over a file opened
                      with newline=""  (a character-stream machine, `parseText`)
  parsers/maxquant.py parse_mq_protein_groups_file
  pipeline/filter_fdr_maxquant.py  filterProteinGroupsAtFDR

Cells are strings (what `csv.writer` receives after `str()`); the *values* of the quantification
cells are the business of C12 and are placeholders here — only their number per row is modelled,
following the list constructions of the code (`[0.0] * (len(experiment_to_idx_map) * (1 + S))` …).
`float()` / `int()` of a field are parameters (`String → Option FVal`, `String → Option Int`).

Executable, total, Mathlib-free.
-/
import PgFdr.Model.Basic
import PgFdr.Generated.Headers

namespace PgFdr.C13

/-! ## csv dialect -/

def delim : Char := '\t'
def quote : Char := '"'

/-- the characters that end a record outside quotes (`c == '\n' || c == '\r'` in `_csv.c`) -/
def isNl (c : Char) : Bool := c == '\n' || c == '\r'

/-- `QUOTE_MINIMAL`: a field is quoted iff it contains the delimiter, the quote character or a
    character of the line terminator -/
def needsQuote (f : List Char) : Bool := f.any (fun c => c == delim || c == quote || isNl c)

/-- `doublequote`: every quote character is written twice -/
def escape : List Char → List Char
  | [] => []
  | c :: r => if c = quote then quote :: quote :: escape r else c :: escape r

def fmtField (f : List Char) : List Char :=
  if needsQuote f then quote :: (escape f ++ [quote]) else f

/-- fields joined by the delimiter -/
def fmtFields : List String → List Char
  | [] => []
  | [f] => fmtField f.toList
  | f :: fs => fmtField f.toList ++ delim :: fmtFields fs

/-- `csv.writer.writerow`: a record consisting of one empty field is written as `""` -/
def formatRow (fs : List String) : List Char :=
  (if fs = [""] then [quote, quote] else fmtFields fs) ++ ['\r', '\n']

def formatRows (rows : List (List String)) : List Char := rows.flatMap formatRow

/-- states of the reader (`_csv.c`: START_RECORD, EAT_CRNL right after a '\r', START_FIELD, IN_FIELD,
    IN_QUOTED_FIELD, QUOTE_IN_QUOTED_FIELD; escapechar is unset, skipinitialspace and strict are off) -/
inductive St where
  | startRecord | afterCR | startField | inField | inQuoted | quoteInQuoted
deriving DecidableEq, Repr, Inhabited

structure PS where
  st : St
  field : List Char
  fields : List String
  rows : List (List String)
deriving Repr, Inhabited

def PS.init : PS := { st := .startRecord, field := [], fields := [], rows := [] }

def saveField (s : PS) : PS := { s with field := [], fields := s.fields ++ [String.ofList s.field] }

/-- a line end outside quotes: the record is complete; after '\r' a '\n' of the same line is eaten -/
def endRecord (s : PS) (c : Char) : PS :=
  { st := if c = '\r' then .afterCR else .startRecord, field := [], fields := [], rows := s.rows ++ [s.fields] }

def stepStartField (s : PS) (c : Char) : PS :=
  if isNl c then endRecord (saveField s) c
  else if c = quote then { s with st := .inQuoted }
  else if c = delim then { saveField s with st := .startField }
  else { s with st := .inField, field := s.field ++ [c] }

def step (s : PS) (c : Char) : PS :=
  match s.st with
  | .startRecord => if isNl c then endRecord s c else stepStartField s c
  | .afterCR =>
    if c = '\n' then { s with st := .startRecord }
    else if c = '\r' then endRecord s c
    else stepStartField s c
  | .startField => stepStartField s c
  | .inField =>
    if isNl c then endRecord (saveField s) c
    else if c = delim then { saveField s with st := .startField }
    else { s with field := s.field ++ [c] }
  | .inQuoted =>
    if c = quote then { s with st := .quoteInQuoted } else { s with field := s.field ++ [c] }
  | .quoteInQuoted =>
    if c = quote then { s with st := .inQuoted, field := s.field ++ [c] }
    else if c = delim then { saveField s with st := .startField }
    else if isNl c then endRecord (saveField s) c
    else { s with st := .inField, field := s.field ++ [c] }

/-- end of input: an unterminated last line still yields its record (non-strict reader) -/
def finish (s : PS) : List (List String) :=
  match s.st with
  | .startRecord => s.rows
  | .afterCR => s.rows
  | _ => s.rows ++ [(saveField s).fields]

/-- `list(csv.reader(open(f, newline=""), delimiter="\t"))` on the decoded text of the file -/
def parseText (text : List Char) : List (List String) := finish (text.foldl step PS.init)

/-- one written line back to its fields -/
def parseRow (line : List Char) : List String := (parseText line).headD []

/-! ## the table machine -/

inductive Err where
  | dupHeader | badSilac | missingColumn | shortRow | emptyFile | noQvalueColumn | badNumber | notTxt | notModelled | indexError
deriving DecidableEq, Repr, Inhabited

def Err.toString : Err → String
  | .dupHeader => "dup_header"
  | .badSilac => "bad_silac"
  | .missingColumn => "missing_column"
  | .shortRow => "short_row"
  | .emptyFile => "empty_file"
  | .noQvalueColumn => "no_qvalue_column"
  | .badNumber => "bad_number"
  | .notTxt => "not_txt"
  | .notModelled => "not_modelled"
  | .indexError => "index_error"

/-- `ProteinGroupResult` with every base field already `str()`-converted; `nprec = len(precursorQuants)` -/
structure Row where
  proteinIds : String
  majorityProteinIds : String
  peptideCountsUnique : String
  bestPeptide : String
  numberOfProteins : String
  qValue : String
  score : String
  reverse : String
  potentialContaminant : String
  extra : List String := []
  nprec : Nat := 0
deriving Repr, DecidableEq, Inhabited

/-- `ProteinGroupResult.to_list` -/
def Row.toList (r : Row) : List String :=
  [r.proteinIds, r.majorityProteinIds, r.peptideCountsUnique, r.bestPeptide, r.numberOfProteins,
   r.qValue, r.score, r.reverse, r.potentialContaminant] ++ r.extra

/-- `ProteinGroupResults`: `headers` and the rows -/
structure Table where
  headers : List String
  rows : List Row
deriving Repr, Inhabited

def baseHeaders : List String := PgFdr.Generated.writers_base_PROTEIN_GROUP_HEADERS

/-- `ProteinGroupResults.__init__`: `headers = PROTEIN_GROUP_HEADERS.copy()` -/
def Table.init (rows : List Row) : Table := { headers := baseHeaders, rows := rows }

/-- the attributes of `ProteinGroupResults` the generators look at -/
structure Ctx where
  experiments : List String
  silac : Int := -1
  tmt : Int := -1
  /-- `len(params["groups"])` of the Triqler generator (0 without a `--file_list_file`) -/
  triqlerGroups : Nat := 0
deriving Repr, Inhabited

/-- `append_headers`: one `append_header` after the other, the first duplicate raises -/
def appendHeaders : List String → List String → Except Err (List String)
  | hs, [] => .ok hs
  | hs, h :: r => if h ∈ hs then .error .dupHeader else appendHeaders (hs ++ [h]) r

inductive Gen where
  | annotations | diannAnnotations | uniqueCounts | idType | sumIbaq | lfq | coverage | tmt | triqler | evidenceIds
deriving DecidableEq, Repr, Inhabited

/-- columns/protein_annotations.py `MQ_PROTEIN_ANNOTATION_HEADERS` -/
def mqAnnotationHeaders : List String := PgFdr.Generated.columns_protein_annotations_MQ_PROTEIN_ANNOTATION_HEADERS
/-- columns/diann_protein_annotations.py `DIANN_PROTEIN_ANNOTATION_HEADERS` -/
def diannAnnotationHeaders : List String :=
  PgFdr.Generated.columns_diann_protein_annotations_DIANN_PROTEIN_ANNOTATION_HEADERS

/-- columns/sum_and_ibaq.py `get_silac_channels` -/
def silacChannels (s : Int) : Except Err (List String) :=
  if s = 3 then .ok ["L", "M", "H"]
  else if s = 2 then .ok ["L", "H"]
  else if s > 0 then .error .badSilac
  else .ok []

/-- `range(1, num_tmt_channels + 1)` rendered with `str` -/
def tmtChannelNames (t : Int) : List String := (List.range t.toNat).map (fun i => toString (i + 1))

/-- `is_valid` of each generator -/
def Gen.valid (ctx : Ctx) : Gen → Bool
  | .lfq => decide (ctx.experiments.length > 1) && decide (ctx.tmt ≤ 0)
  | .tmt => decide (ctx.tmt > 0)
  | .triqler => !(decide (ctx.tmt > 0) || decide (ctx.silac > 0)) && decide (ctx.triqlerGroups > 1)
  | _ => true

/-- the header names `append_headers` of each generator passes to `append_header`, in order -/
def Gen.hdrs (ctx : Ctx) : Gen → Except Err (List String)
  | .annotations => .ok mqAnnotationHeaders
  | .diannAnnotations => .ok diannAnnotationHeaders
  | .uniqueCounts => .ok ("Combined Total Peptides" :: ctx.experiments.map (fun e => "Unique peptides " ++ e))
  | .idType => .ok (ctx.experiments.map (fun e => "Identification type " ++ e))
  | .sumIbaq => do
    let ch ← silacChannels ctx.silac
    pure (["Intensity"]
      ++ ctx.experiments.flatMap (fun e => ("Intensity " ++ e) :: ch.map (fun c => "Intensity " ++ c ++ " " ++ e))
      ++ ["Number of theoretical peptides iBAQ", "iBAQ"]
      ++ ctx.experiments.flatMap (fun e => ("iBAQ " ++ e) :: ch.map (fun c => "iBAQ " ++ c ++ " " ++ e)))
  | .lfq => do
    let ch ← silacChannels ctx.silac
    pure (ctx.experiments.flatMap (fun e =>
      if ctx.silac > 0 then ch.map (fun c => "LFQ Intensity " ++ c ++ " " ++ e) else ["LFQ Intensity " ++ e]))
  | .coverage => .ok (["Sequence coverage [%]", "Unique + razor sequence coverage [%]", "Unique sequence coverage [%]"]
      ++ ctx.experiments.map (fun e => "Sequence coverage [%] " ++ e))
  | .tmt => .ok (ctx.experiments.flatMap (fun e =>
      (tmtChannelNames ctx.tmt).map (fun i => "Reporter intensity corrected " ++ i ++ " " ++ e)
      ++ (tmtChannelNames ctx.tmt).map (fun i => "Reporter intensity " ++ i ++ " " ++ e)
      ++ (tmtChannelNames ctx.tmt).map (fun i => "Reporter intensity count " ++ i ++ " " ++ e)))
  | .triqler => .error .notModelled
  | .evidenceIds => .ok ["Evidence IDs"]

/-- `len(get_experiment_to_idx_map())`: the number of keys of `{e: idx for idx, e in enumerate(experiments)}` -/
def countDistinct : List String → Nat
  | [] => 0
  | a :: l => if a ∈ l then countDistinct l else countDistinct l + 1

/-- placeholder for a cell whose value is computed by the generator (see C12) -/
def cell (tag : String) : String := tag

/-- the cells `append_columns` of each generator adds to one row (shape only).  The lengths follow the
    list constructions of the code, which size their lists by the experiment→index *dict*. -/
def Gen.vals (ctx : Ctx) (_r : Row) : Gen → List String
  | .annotations => [cell "proteinNames", cell "geneNames", cell "fastaHeaders"]
  | .diannAnnotations => [cell "uniprotIds", cell "proteinNames", cell "geneNames", cell "firstDescription"]
  | .uniqueCounts => List.replicate (countDistinct ctx.experiments + 1) (cell "count")
  | .idType => List.replicate (countDistinct ctx.experiments) (cell "idType")
  | .sumIbaq =>
    let s := match silacChannels ctx.silac with | .ok ch => ch.length | .error _ => 0
    let n := countDistinct ctx.experiments * (1 + s)
    [cell "totalIntensity"] ++ List.replicate n (cell "intensity") ++ [cell "numTheoreticalPeptides"]
      ++ [cell "totalIbaq"] ++ List.replicate n (cell "ibaq")
  | .lfq =>
    let s := match silacChannels ctx.silac with | .ok ch => ch.length | .error _ => 0
    List.replicate (countDistinct ctx.experiments * max 1 s) (cell "lfq")
  | .coverage => [cell "coverage", cell "coverage", cell "coverage"]
      ++ List.replicate (countDistinct ctx.experiments) (cell "coverageExp")
  | .tmt => (List.replicate (countDistinct ctx.experiments) (List.replicate (ctx.tmt.toNat * 3) (cell "tmt"))).flatten
  | .triqler => []
  | .evidenceIds => [cell "evidenceIds"]

/-- `ProteinGroupColumns.append`: `is_valid`, then the headers, then the columns -/
def applyGen (ctx : Ctx) (t : Table) (g : Gen) : Except Err Table :=
  if !g.valid ctx then .ok t
  else do
    let new ← g.hdrs ctx
    let hs ← appendHeaders t.headers new
    pure { headers := hs, rows := t.rows.map (fun r => { r with extra := r.extra ++ g.vals ctx r }) }

/-- a history of generators -/
def applyAll (ctx : Ctx) : Table → List Gen → Except Err Table
  | t, [] => .ok t
  | t, g :: gs => do
    let t' ← applyGen ctx t g
    applyAll ctx t' gs

/-- Python `del l[i]` (negative `i` counts from the end; out of range raises IndexError) -/
def pyDel {α} (l : List α) (i : Int) : Except Err (List α) :=
  let j := if i < 0 then i + l.length else i
  if 0 ≤ j ∧ j < l.length then .ok (l.eraseIdx j.toNat) else .error .indexError

def delColumn (i : Int) : List Row → Except Err (List Row)
  | [] => .ok []
  | r :: rs => do
    let ex ← pyDel r.extra i
    let rest ← delColumn i rs
    pure ({ r with extra := ex } :: rest)

/-- `ProteinGroupResults.remove_column`: an unknown header is ignored (with a warning); otherwise the header is
    deleted and `extraColumns[idx - len(PROTEIN_GROUP_HEADERS)]` of every row — for a BASE header that index is
    negative, i.e. Python deletes an extra column counted from the end (the model follows the code) -/
def removeColumn (t : Table) (header : String) : Except Err Table :=
  if header ∈ t.headers then do
    let idx := t.headers.idxOf header
    let rows ← delColumn ((idx : Int) - (baseHeaders.length : Int)) t.rows
    pure { headers := t.headers.eraseIdx idx, rows := rows }
  else .ok t

/-- a history step: a column generator or `remove_column` -/
inductive Op where
  | gen (g : Gen) | remove (header : String)
deriving DecidableEq, Repr, Inhabited

def applyOp (ctx : Ctx) (t : Table) : Op → Except Err Table
  | .gen g => applyGen ctx t g
  | .remove h => removeColumn t h

def applyOps (ctx : Ctx) : Table → List Op → Except Err Table
  | t, [] => .ok t
  | t, o :: os => do
    let t' ← applyOp ctx t o
    applyOps ctx t' os

/-! ## writers -/

inductive Writer where
  | maxquant (skipLfq : Bool) | diann | minimal
deriving DecidableEq, Repr, Inhabited

/-- `get_columns` (the Triqler generator is part of the history; it is invalid without a file list naming
    at least two conditions, and the model stops with `notModelled` where it would run) -/
def Writer.columns : Writer → List Gen
  | .maxquant skipLfq =>
    [.annotations, .uniqueCounts, .idType, .sumIbaq] ++ (if skipLfq then [] else [.lfq])
      ++ [.coverage, .tmt, .triqler, .evidenceIds]
  | .diann => [.diannAnnotations, .uniqueCounts, .lfq]
  | .minimal => [.annotations]

/-- `append_quant_columns`: the base class drops the groups without precursors first, the minimal
    writer does not -/
def Writer.appendQuantColumns (w : Writer) (ctx : Ctx) (t : Table) : Except Err Table :=
  match w with
  | .minimal => applyAll ctx t w.columns
  | _ => applyAll ctx { t with rows := t.rows.filter (fun r => decide (r.nprec > 0)) } w.columns

/-- Python `d[k] = v` on an insertion-ordered dict -/
def dictInsert : List (String × String) → String × String → List (String × String)
  | [], kv => [kv]
  | (k, v) :: d, (k', v') => if k = k' then (k, v') :: d else (k, v) :: dictInsert d (k', v')

def dictOfPairs (ps : List (String × String)) : List (String × String) := ps.foldl dictInsert []

/-- `get_header_dict` -/
def Writer.headerDict (w : Writer) (ctx : Ctx) (t : Table) : List (String × String) :=
  match w with
  | .diann => dictOfPairs (PgFdr.Generated.writers_diann_DIANN_PROTEIN_OUTPUT_DICT
      ++ ctx.experiments.map (fun e => (e, "LFQ Intensity " ++ e)))
  | _ => dictOfPairs (t.headers.map (fun x => (x, x)))

/-- `[out_row[self.headers.index(v)] for v in header_dict.values()]` -/
def selectRow (headers : List String) (out : List String) : List String → Except Err (List String)
  | [] => .ok []
  | v :: vs =>
    if v ∈ headers then
      match out[headers.idxOf v]? with
      | some x => do let rest ← selectRow headers out vs; pure (x :: rest)
      | none => .error .shortRow
    else .error .missingColumn

def outRows (t : Table) (dict : Option (List (String × String))) : List Row → Except Err (List (List String))
  | [] => .ok []
  | r :: rs => do
    let o ← match dict with
      | none => pure r.toList
      | some d => selectRow t.headers r.toList (d.map Prod.snd)
    let rest ← outRows t dict rs
    pure (o :: rest)

/-- the records `ProteinGroupResults.write` hands to the csv writer -/
def writeRecords (t : Table) (dict : Option (List (String × String))) : Except Err (List (List String)) := do
  let body ← outRows t dict t.rows
  pure ((match dict with | none => t.headers | some d => d.map Prod.fst) :: body)

/-- `ProteinGroupResults.write`: the text of the file -/
def writeTable (t : Table) (dict : Option (List (String × String))) : Except Err (List Char) := do
  pure (formatRows (← writeRecords t dict))

/-- `ProteinGroupsWriter.write` -/
def Writer.write (w : Writer) (ctx : Ctx) (t : Table) : Except Err (List Char) :=
  writeTable t (some (w.headerDict ctx t))

/-! ## reading back -/

/-- the value of `float(field)` -/
inductive FVal where
  | nan | ninf | pinf | fin (q : Rat)
deriving DecidableEq, Repr, Inhabited

/-- IEEE `a <= b` -/
def FVal.le : FVal → FVal → Bool
  | .nan, _ => false
  | _, .nan => false
  | .ninf, _ => true
  | _, .pinf => true
  | .fin a, .fin b => decide (a ≤ b)
  | .fin _, .ninf => false
  | .pinf, .fin _ => false
  | .pinf, .ninf => false

/-- result of `parse_mq_protein_groups_file_row` (`bestPeptide` is set to "" and `precursorQuants` to []) -/
structure MqRow where
  proteinIds : String
  majorityProteinIds : String
  peptideCountsUnique : String
  numberOfProteins : Int
  qValue : FVal
  score : FVal
  reverse : String
  potentialContaminant : String
  extra : List String
deriving Repr, DecidableEq, Inhabited

/-- `cols = {x: headers.index(x) for x in PROTEIN_GROUP_HEADERS + additional if x in headers}`;
    `_get_field(x) = row[cols[x]] if x in cols else ""` -/
def getField (known headers row : List String) (x : String) : Except Err String :=
  if x ∈ known ∧ x ∈ headers then
    match row[headers.idxOf x]? with
    | some v => .ok v
    | none => .error .shortRow
  else .ok ""

def getFields (known headers row : List String) : List String → Except Err (List String)
  | [] => .ok []
  | x :: xs => do
    let v ← getField known headers row x
    let rest ← getFields known headers row xs
    pure (v :: rest)

def toNum {α} (p : String → Option α) (s : String) : Except Err α :=
  match p s with
  | some v => .ok v
  | none => .error .badNumber

/-- fields are evaluated in the order of the keyword arguments of the constructor call -/
def parseMqRow (pint : String → Option Int) (pfloat : String → Option FVal)
    (headers additional row : List String) : Except Err MqRow := do
  let known := baseHeaders ++ additional
  let ids ← getField known headers row "Protein IDs"
  let maj ← getField known headers row "Majority protein IDs"
  let cnt ← getField known headers row "Peptide counts (unique)"
  let n ← toNum pint (← getField known headers row "Number of proteins")
  let q ← toNum pfloat (← getField known headers row "Q-value")
  let s ← toNum pfloat (← getField known headers row "Score")
  let rev ← getField known headers row "Reverse"
  let con ← getField known headers row "Potential contaminant"
  let ex ← getFields known headers row additional
  pure { proteinIds := ids, majorityProteinIds := maj, peptideCountsUnique := cnt, numberOfProteins := n,
         qValue := q, score := s, reverse := rev, potentialContaminant := con, extra := ex }

def parseMqRows (pint : String → Option Int) (pfloat : String → Option FVal)
    (headers additional : List String) : List (List String) → Except Err (List MqRow)
  | [] => .ok []
  | r :: rs => do
    let x ← parseMqRow pint pfloat headers additional r
    let rest ← parseMqRows pint pfloat headers additional rs
    pure (x :: rest)

/-- `parse_mq_protein_groups_file`: the rows and the header list of the returned `ProteinGroupResults` -/
def parseMq (pint : String → Option Int) (pfloat : String → Option FVal) (additional : List String)
    (text : List Char) : Except Err (List String × List MqRow) :=
  match parseText text with
  | [] => .error .emptyFile
  | headers :: rows => do
    let rs ← parseMqRows pint pfloat headers additional rows
    let hs ← appendHeaders baseHeaders additional
    pure (hs, rs)

/-! ## the FDR filter tool -/

/-- `for row in reader: if float(row[qvalCol]) <= fdrCutoff: writer.writerow(row)` -/
def filterRows (pfloat : String → Option FVal) (cutoff : FVal) (qcol : Nat) :
    List (List String) → Except Err (List (List String))
  | [] => .ok []
  | r :: rs =>
    match r[qcol]? with
    | none => .error .shortRow
    | some f =>
      match pfloat f with
      | none => .error .badNumber
      | some v => do
        let rest ← filterRows pfloat cutoff qcol rs
        pure (if v.le cutoff then r :: rest else rest)

/-- one input file of `filterProteinGroupsAtFDR` → the text of the output file -/
def filterText (pfloat : String → Option FVal) (cutoff : FVal) (text : List Char) : Except Err (List Char) :=
  match parseText text with
  | [] => .error .emptyFile
  | header :: rows =>
    if "Q-value" ∈ header then do
      let kept ← filterRows pfloat cutoff (header.idxOf "Q-value") rows
      pure (formatRows (header :: kept))
    else .error .noQvalueColumn

/-- `filterProteinGroupsAtFDR(files, out, cutoff)`: every input file re-opens the output for writing,
    so the output holds the filtered rows of the last file (`none`: no input file, nothing written) -/
def filterFiles (pfloat : String → Option FVal) (cutoff : FVal) :
    List (String × List Char) → Option (List Char) → Except Err (Option (List Char))
  | [], out => .ok out
  | (name, text) :: rest, _ =>
    if strContains name ".txt" then do
      let o ← filterText pfloat cutoff text
      filterFiles pfloat cutoff rest (some o)
    else .error .notTxt

end PgFdr.C13
