/-
Model of the in-silico digestion of `picked_group_fdr/digest.py`:
`is_enzymatic`, `full_digest`, `semi_specific_digest`, `non_specific_digest`,
`get_digested_peptides`, `get_cleavage_sites` (lookup in the table regenerated from the source,
`PgFdr.Generated.enzymes`).

Sequences are `List Char`.  Every digest function returns the LIST of peptides the generator
yields, in emission order, duplicates included; `seq[a:b]` is `slice seq a b`.

Two places follow the property text instead of the pinned code (DESIGN.md §9 items 1, 2;
fixes/C08-full-digest-cterm-length.diff, fixes/C08-semi-met-site.diff):
  * `full_digest` measures the peptide that ends at the protein's C-terminus with
    `min(i, seq_len - 1) - start + 1` (the pinned code used `i - start + 1`, one too large there);
  * `semi_specific_digest` treats the site behind the initiator methionine as an ordinary
    enzymatic site when the rule fires there (the pinned code granted one extra missed cleavage).

Executable, Mathlib-free.
-/
import PgFdr.Generated.Enzymes

namespace PgFdr.C08
open PgFdr.Generated

/-- Python `seq[a:b]` for `0 ≤ a`, `0 ≤ b` (clamped at the end of the sequence) -/
def slice {α : Type} (seq : List α) (a b : Nat) : List α := (seq.drop a).take (b - a)

/-- `digest.is_enzymatic(aa1, aa2, pre, not_post, post)` -/
def isEnzymatic (r : EnzymeRule) (aa1 aa2 : Char) : Bool :=
  (r.pre.contains aa1 && !r.notPost.contains aa2) || r.post.contains aa2

/-- `digest.get_cleavage_sites`: `ENZYME_CLEAVAGE_RULES[enzyme]` (a `KeyError` for an unknown name) -/
def lookupEnzyme (name : String) : Option EnzymeRule := enzymes.find? (fun r => r.name == name)

/-- the loop parameters shared by the digestion modes; `met` is the *effective* flag
    (`methionine_cleavage and seq[0] == "M"`), `n = len(seq)` -/
structure Cfg where
  mc : Nat
  met : Bool
  minL : Nat
  maxL : Nat
  n : Nat

def b2n (b : Bool) : Nat := if b then 1 else 0

/-- residue `seq[min(seq_len - 1, i)]` (a blank for the empty sequence, which the callers reject) -/
def resAt (seq : List Char) (i : Nat) : Char := seq.getD (min (seq.length - 1) i) ' '

/-- the site test inlined in `full_digest` at residue index `i < seq_len`, look-ahead clamped to the
    last residue: `(check_pre and seq[i] in pre and not seq[min(seq_len-1, i+1)] in not_post)
    or (check_post and seq[min(seq_len-1, i+1)] in post)` -/
def enz (r : EnzymeRule) (seq : List Char) (i : Nat) : Bool :=
  let cur := seq.getD i ' '
  let nxt := seq.getD (min (seq.length - 1) (i + 1)) ' '
  (!r.pre.isEmpty && r.pre.contains cur && !r.notPost.contains nxt) || (!r.post.isEmpty && r.post.contains nxt)

/-- the enzymatic entries of `cleavage_sites`: `[i for i in range(seq_len) if <site test>]` -/
def sitesZ (r : EnzymeRule) (seq : List Char) : List Nat :=
  (List.range seq.length).filter (enz r seq)

/-! ### `full_digest` -/

/-- inner loop of `full_digest` at site `i`: `for start in starts: pep_len = min(i, seq_len-1) - start + 1;
    if min_len <= pep_len <= max_len: yield seq[start:i+1]`, as (start, site) pairs -/
def emit (c : Cfg) (starts : List Nat) (i : Nat) : List (Nat × Nat) :=
  starts.filterMap (fun (s : Nat) =>
    let len : Int := ((min i (c.n - 1) : Nat) : Int) - (s : Int) + 1
    if (c.minL : Int) ≤ len && len ≤ (c.maxL : Int) then some (s, i) else none)

/-- window update: `starts.append(i+1); m = int(starts[0] == 0 and met);
    if len(starts) > miscleavages + 1 + m: starts = starts[1+m:]` -/
def next (c : Cfg) (starts : List Nat) (i : Nat) : List Nat :=
  let starts1 := starts ++ [i + 1]
  let m := b2n (starts1.head? == some 0 && c.met)
  if starts1.length > c.mc + 1 + m then starts1.drop (1 + m) else starts1

/-- `for i in cleavage_sites: …` -/
def go (c : Cfg) : List Nat → List Nat → List (Nat × Nat)
  | [], _ => []
  | i :: rest, starts => emit c starts i ++ go c rest (next c starts i)

/-- `cleavage_sites`: `[0]` if the initiator Met is removable, the enzymatic sites, `seq_len` -/
def sitesOf (c : Cfg) (Z : List Nat) : List Nat := (if c.met then [0] else []) ++ Z ++ [c.n]

def cfgOf (seq : List Char) (minL maxL mc : Nat) (met : Bool) : Cfg :=
  { mc := mc, met := met && seq.head? == some 'M', minL := minL, maxL := maxL, n := seq.length }

/-- the (start, site) pairs `full_digest` emits on a non-empty sequence -/
def fullPairs (r : EnzymeRule) (seq : List Char) (minL maxL mc : Nat) (met : Bool) : List (Nat × Nat) :=
  let c := cfgOf seq minL maxL mc met
  go c (sitesOf c (sitesZ r seq)) [0]

inductive Err where
  | indexError        -- `seq[0]` / `seq[-1]` on the empty sequence
  | unknownEnzyme     -- `KeyError` in `get_cleavage_sites`
deriving Repr, DecidableEq

/-- `list(digest.full_digest(seq, min_len, max_len, pre, not_post, post, miscleavages, methionine_cleavage))`.
    Empty sequence: `seq[0]` raises if `methionine_cleavage`; otherwise the only site is `seq_len = 0`
    with `pep_len = min(0, -1) - 0 + 1 = 0`, so `""` is yielded iff `min_len ≤ 0`. -/
def fullDigest (r : EnzymeRule) (seq : List Char) (minL maxL mc : Nat) (met : Bool) :
    Except Err (List (List Char)) :=
  match seq with
  | [] => if met then .error .indexError else .ok (if minL = 0 then [[]] else [])
  | _ => .ok ((fullPairs r seq minL maxL mc met).map (fun p => slice seq p.1 (p.2 + 1)))

/-! ### `non_specific_digest` -/

/-- `for i in range(n+1): for j in range(i+min_len, min(n+1, i+max_len+1)): if j <= n: yield seq[i:j]` -/
def nonSpecific {α : Type} (seq : List α) (minL maxL : Nat) : List (List α) :=
  (List.range (seq.length + 1)).flatMap fun i =>
    ((List.range (min (seq.length + 1) (i + maxL + 1))).filter (fun j => decide (i + minL ≤ j))).filterMap
      fun j => if j ≤ seq.length then some (slice seq i j) else none

/-! ### `semi_specific_digest` -/

/-- `is_enzymatic(seq[min(seq_len-1, i)], seq[min(seq_len-1, i+1)], …)` for `i` in `range(seq_len+1)` -/
def semiSite (r : EnzymeRule) (seq : List Char) (i : Nat) : Bool :=
  isEnzymatic r (resAt seq i) (resAt seq (i + 1))

/-- effective Met flag of `semi_specific_digest` (repaired): the initiator methionine is removable and the
    site behind it is not already an enzymatic site -/
def semiMet (r : EnzymeRule) (seq : List Char) (met : Bool) : Bool :=
  met && seq.head? == some 'M' && !semiSite r seq 0

def accepted (c : Cfg) (len : Int) : Bool := (c.minL : Int) ≤ len && len ≤ (c.maxL : Int)

/-- one iteration `i` of the loop of `semi_specific_digest`: emitted (start, end-index) pairs and the new
    `starts` -/
def semiStep (c : Cfg) (site : Nat → Bool) (starts : List Nat) (i : Nat) : List (Nat × Nat) × List Nat :=
  if i == c.n || site i || (i == 0 && c.met) then
    -- peptides with enzymatic C-terminal: `for j in range(starts[0], min(i+1, seq_len))`
    let start := starts.headD 0
    let out := (List.range' start (min (i + 1) c.n - start)).filterMap (fun (j : Nat) =>
      if accepted c (((min i (c.n - 1) : Nat) : Int) - (j : Int) + 1) then some (j, i) else none)
    let starts1 := starts ++ [i + 1]
    let m := b2n (starts1.head? == some 0 && c.met)
    let starts2 := if starts1.length > c.mc + 1 + m || i == c.n then starts1.drop (1 + m) else starts1
    (out, starts2)
  else
    -- peptides with non-enzymatic C-terminal: `for start in starts`
    let out := starts.filterMap (fun (s : Nat) =>
      if accepted c ((i : Int) - (s : Int) + 1) && !starts.contains (i + 1) then some (s, i) else none)
    (out, starts)

def semiGo (c : Cfg) (site : Nat → Bool) : List Nat → List Nat → List (Nat × Nat)
  | [], _ => []
  | i :: rest, starts =>
    let p := semiStep c site starts i
    p.1 ++ semiGo c site rest p.2

def semiCfg (r : EnzymeRule) (seq : List Char) (minL maxL mc : Nat) (met : Bool) : Cfg :=
  { mc := mc, met := semiMet r seq met, minL := minL, maxL := maxL, n := seq.length }

def semiPairs (r : EnzymeRule) (seq : List Char) (minL maxL mc : Nat) (met : Bool) : List (Nat × Nat) :=
  semiGo (semiCfg r seq minL maxL mc met) (semiSite r seq) (List.range (seq.length + 1)) [0]

/-- `list(digest.semi_specific_digest(…))`; the empty sequence raises `IndexError` (`seq[0]` or `seq[-1]`) -/
def semiDigest (r : EnzymeRule) (seq : List Char) (minL maxL mc : Nat) (met : Bool) :
    Except Err (List (List Char)) :=
  match seq with
  | [] => .error .indexError
  | _ => .ok ((semiPairs r seq minL maxL mc met).map (fun p => slice seq p.1 (p.2 + 1)))

/-! ### `get_digested_peptides` -/

inductive Mode where
  | full | semi | none
deriving Repr, DecidableEq

/-- the dispatch of `get_digested_peptides`: `"none"`, `"semi"`, anything else is a full digest -/
def modeOf (digestion : String) : Mode :=
  if digestion == "none" then .none else if digestion == "semi" then .semi else .full

/-- `list(digest.get_digested_peptides(seq, min_len, max_len, pre, not_post, post, digestion, miscleavages,
    methionine_cleavage))` -/
def digestPeptides (r : EnzymeRule) (seq : List Char) (minL maxL : Nat) (mode : Mode) (mc : Nat) (met : Bool) :
    Except Err (List (List Char)) :=
  match mode with
  | .none => .ok (nonSpecific seq minL maxL)
  | .semi => semiDigest r seq minL maxL mc met
  | .full => fullDigest r seq minL maxL mc met

/-- by enzyme name, as `get_peptide_to_protein_map_from_params_single` calls it -/
def digestByName (enzyme : String) (seq : List Char) (minL maxL : Nat) (digestion : String) (mc : Nat)
    (met : Bool) : Except Err (List (List Char)) :=
  match lookupEnzyme enzyme with
  | none => .error .unknownEnzyme
  | some r => digestPeptides r seq minL maxL (modeOf digestion) mc met

/-! ### the declarative rule (DESIGN.md §5 C08) -/

/-- "a position after a 'pre' residue not followed by a 'not_post' residue or before a 'post' residue":
    the cleavage rule at the cut position `x` (between residues `x-1` and `x`) -/
def RuleAt (r : EnzymeRule) (seq : List Char) (x : Nat) : Prop :=
  (seq.getD (x - 1) ' ' ∈ r.pre ∧ seq.getD x ' ' ∉ r.notPost) ∨ seq.getD x ' ' ∈ r.post

instance (r : EnzymeRule) (seq : List Char) (x : Nat) : Decidable (RuleAt r seq x) := by
  unfold RuleAt; infer_instance

/-- an enzymatic cleavage site: an internal cut position where the rule fires -/
def Site (r : EnzymeRule) (seq : List Char) (x : Nat) : Prop :=
  1 ≤ x ∧ x < seq.length ∧ RuleAt r seq x

instance (r : EnzymeRule) (seq : List Char) (x : Nat) : Decidable (Site r seq x) := by
  unfold Site; infer_instance

/-- the site behind a removable initiator methionine -/
def MetSite (met : Bool) (seq : List Char) (x : Nat) : Prop :=
  met = true ∧ seq.head? = some 'M' ∧ x = 1

/-- a position at which a peptide may start or end: a protein terminus, an enzymatic cleavage site or the
    site behind a removable initiator methionine -/
def Terminus (r : EnzymeRule) (met : Bool) (seq : List Char) (x : Nat) : Prop :=
  x = 0 ∨ x = seq.length ∨ Site r seq x ∨ MetSite met seq x

/-- number of enzymatic cleavage sites strictly inside the peptide `seq[a:b]` -/
def innerSites (r : EnzymeRule) (seq : List Char) (a b : Nat) : Nat :=
  ((List.range b).filter (fun x => decide (a < x) && decide (Site r seq x))).length

/-- `seq[a:b]` is a peptide the digestion must produce -/
structure Valid (mode : Mode) (r : EnzymeRule) (minL maxL mc : Nat) (met : Bool) (seq : List Char)
    (a b : Nat) : Prop where
  lt : a < b
  le : b ≤ seq.length
  minL : minL ≤ b - a
  maxL : b - a ≤ maxL
  termini : match mode with
    | .full => Terminus r met seq a ∧ Terminus r met seq b
    | .semi => Terminus r met seq a ∨ Terminus r met seq b
    | .none => True
  budget : mode ≠ .none → innerSites r seq a b ≤ mc

end PgFdr.C08
