/-
Model of the peptide → protein map of `picked_group_fdr/digest.py` (+ `digestion_params.py`,
the `parse_id` rules of `protein_annotation.py`):

  read_fasta_maxquant (on the list of lines of a file), swap_special_aas, parse_until_first_space /
  parse_uniprot_id / parse_gene_name_func, DigestionParams.__init__, get_peptide_to_protein_map
  (per-record de-duplication, hash keys), get_peptide_to_protein_map_from_params (merge over files ×
  parameter sets), get_proteins, get_ibaq_peptide_to_protein_map, get_num_peptides_per_protein,
  the `--peptide_protein_map` writer and get_peptide_to_protein_map_from_file (quote-free fragment).

Strings are `List Char` (`Str`); dicts are association lists in insertion order.

Places that follow the property text / a pending repair instead of the pinned code:
  * digestion is `PgFdr.C08.digestPeptides` (repaired `full_digest` / `semi_specific_digest`);
  * the `(map, sequences)` pair is recognised by type, not by `len(x) == 2`
    (fixes/C10-two-peptide-digest-map.diff);
  * the iBAQ map is fully specific (`digestion = "full"`, no hash keys) and a peptide counts once per
    protein (fixes/C09-ibaq-fully-specific.diff, fixes/C09-ibaq-count-distinct.diff).

Executable, Mathlib-free.
-/
import PgFdr.Model.Basic
import PgFdr.Model.C08

namespace PgFdr.C09
open PgFdr.Generated PgFdr.C08

abbrev Str := List Char

inductive Err where
  | indexError       -- digestion of an empty sequence (`seq[0]`), `row[1]` of a short row
  | attributeError   -- `seq.append` on a str: a sequence line after a bare ">" line
  | unknownEnzyme    -- KeyError in get_cleavage_sites
  | keyError         -- protein missing from the sequence map in get_proteins
  | unsupportedCsv   -- a field that needs csv quoting (outside the modelled fragment)
deriving Repr, DecidableEq

/-! ### Python string helpers -/

/-- `str.isspace` on the characters `rstrip()` may meet here (ASCII white space, FS/GS/RS/US, NEL, NBSP) -/
def isPySpace (c : Char) : Bool :=
  c == ' ' || c == '\t' || c == '\n' || c == '\r' || c.toNat == 0x0b || c.toNat == 0x0c ||
  (0x1c ≤ c.toNat && c.toNat ≤ 0x1f) || c.toNat == 0x85 || c.toNat == 0xa0

/-- `line.rstrip()` -/
def rstrip (s : Str) : Str := (s.reverse.dropWhile isPySpace).reverse

/-- `s.split(pat)` for a non-empty `pat` (left to right, non-overlapping); `skip` counts the characters of
    a match still to be consumed, `cur` is the current piece reversed -/
def splitAux (pat : Str) : Nat → Str → Str → List Str
  | _, [], cur => [cur.reverse]
  | skip + 1, _ :: t, cur => splitAux pat skip t cur
  | 0, c :: t, cur =>
    if pat ≠ [] ∧ pat.isPrefixOf (c :: t) then cur.reverse :: splitAux pat (pat.length - 1) t []
    else splitAux pat 0 t (c :: cur)

def splitOn (pat s : Str) : List Str := splitAux pat 0 s []

/-- `sep.join(l)` -/
def joinSep (sep : Str) : List Str → Str
  | [] => []
  | [x] => x
  | x :: xs => x ++ sep ++ joinSep sep xs

/-- Python `a <= b` on strings (lexicographic by code point) -/
def strLe : Str → Str → Bool
  | [], _ => true
  | _ :: _, [] => false
  | a :: as, b :: bs => a.toNat < b.toNat || (a == b && strLe as bs)

def insertSorted (x : Str) : List Str → List Str
  | [] => [x]
  | y :: ys => if strLe x y then x :: y :: ys else y :: insertSorted x ys

/-- `sorted(l)` (insertion sort; stable order is irrelevant for equal strings) -/
def sortStrs (l : List Str) : List Str := l.foldr insertSorted []

/-! ### identifier rules -/

/-- `digest.parse_until_first_space`: `fasta_id.split(" ")[0]` -/
def parseUntilFirstSpace (s : Str) : Str := (splitOn [' '] s).headD []

/-- `protein_annotation.parse_uniprot_id` -/
def parseUniprotId (s : Str) : Str :=
  let pid := parseUntilFirstSpace s
  if pid.contains '|' then (splitOn ['|'] pid).getD 1 [] else pid

/-- `protein_annotation.parse_gene_name_func` (`None` without a ` GN=` field) -/
def parseGeneName (s : Str) : Option Str :=
  if containsSub " GN=".toList s then some ((splitOn [' '] ((splitOn " GN=".toList s).getD 1 [])).headD [])
  else none

inductive ParseId where
  | firstSpace | uniprot | gene
deriving Repr, DecidableEq

def applyParse : ParseId → Str → Option Str
  | .firstSpace, s => some (parseUntilFirstSpace s)
  | .uniprot, s => some (parseUniprotId s)
  | .gene, s => parseGeneName s

/-! ### decoy sequences -/

def swapGo (special : List Char) : Char → Str → Str
  | prev, [] => [prev]
  | prev, c :: t => if special.contains c then c :: swapGo special prev t else prev :: swapGo special c t

/-- `digest.swap_special_aas`: left to right, every special residue is swapped with the residue that
    currently precedes it -/
def swapSpecial (special : List Char) : Str → Str
  | [] => []
  | a :: t => swapGo special a t

/-- the decoy sequence of `read_fasta_maxquant`: reversed, then special residues swapped (if there are any) -/
def decoySeq (special : List Char) (seq : Str) : Str :=
  if special.isEmpty then seq.reverse else swapSpecial special seq.reverse

def decoyPrefix : Str := "REV__".toList

/-! ### read_fasta_maxquant -/

inductive Db where
  | target | decoy | concat
deriving Repr, DecidableEq

/-- the loop variable `seq`: a list of lines, or (after a record was yielded and no new header reset it) a str -/
inductive SeqBuf where
  | lines (l : List Str)
  | str (s : Str)

def SeqBuf.join : SeqBuf → Str
  | .lines l => l.flatten
  | .str s => s

structure RState where
  name : Option Str
  buf : SeqBuf

/-- the records one completed entry yields under the db mode -/
def yieldRecords (db : Db) (special : List Char) (name seq : Str) : List (Str × Str) :=
  (if db = .target ∨ db = .concat then [(name, seq)] else []) ++
  (if db = .decoy ∨ db = .concat then [(decoyPrefix ++ name, decoySeq special seq)] else [])

/-- `if name:` — neither `None` nor the empty string -/
def truthy : Option Str → Option Str
  | some (c :: t) => some (c :: t)
  | _ => none

/-- one (already right-stripped) line of the loop of `read_fasta_maxquant` -/
def readStep (db : Db) (special : List Char) (parse : ParseId) (st : RState) (line : Str) :
    Except Err (List (Str × Str) × RState) :=
  if line.head? == some '>' then
    let (out, buf1) := match truthy st.name with
      | some nm => let s := st.buf.join; (yieldRecords db special nm s, SeqBuf.str s)
      | none => ([], st.buf)
    if line.length > 1 then .ok (out, { name := applyParse parse line.tail, buf := .lines [] })
    else .ok (out, { name := st.name, buf := buf1 })
  else
    match st.buf with
    | .lines l => .ok ([], { st with buf := .lines (l ++ [line]) })
    | .str _ => .error .attributeError

/-- the records yielded in order, and the error (if any) that stops the generator after them -/
def readGo (db : Db) (special : List Char) (parse : ParseId) : RState → List Str → List (Str × Str) × Option Err
  | _, [] => ([], none)
  | st, raw :: rest =>
    match readStep db special parse st (rstrip raw) with
    | .error e => ([], some e)
    | .ok (out, st') =>
      let r := readGo db special parse st' rest
      (out ++ r.1, r.2)

/-- `read_fasta_maxquant(file, db, parse_id, special_aas)` on the lines of the file
    (`itertools.chain(fp, [">"])`) -/
def readFasta (db : Db) (special : List Char) (parse : ParseId) (lines : List Str) :
    List (Str × Str) × Option Err :=
  readGo db special parse { name := none, buf := .lines [] } (lines ++ [['>']])

/-! ### dict helpers -/

abbrev PMap := List (Str × List Str)
abbrev SeqMap := List (Str × Str)

/-- `d[k].append(v)` on a `defaultdict(list)` -/
def push {Q P : Type} [DecidableEq Q] (d : List (Q × List P)) (k : Q) (v : P) : List (Q × List P) :=
  match d with
  | [] => [(k, [v])]
  | (k', vs) :: r => if k' = k then (k', vs ++ [v]) :: r else (k', vs) :: push r k v

/-- `d.get(k, [])` -/
def get {Q P : Type} [DecidableEq Q] (d : List (Q × List P)) (k : Q) : List P :=
  match d with
  | [] => []
  | (k', vs) :: r => if k' = k then vs else get r k

/-- `d[k] = v` -/
def setKey {Q V : Type} [DecidableEq Q] (d : List (Q × V)) (k : Q) (v : V) : List (Q × V) :=
  match d with
  | [] => [(k, v)]
  | (k', v') :: r => if k' = k then (k', v) :: r else (k', v') :: setKey r k v

/-- `d[k].extend(vs)` -/
def extend {Q P : Type} [DecidableEq Q] (d : List (Q × List P)) (k : Q) (vs : List P) : List (Q × List P) :=
  match d with
  | [] => [(k, vs)]
  | (k', ws) :: r => if k' = k then (k', ws ++ vs) :: r else (k', ws) :: extend r k vs

/-! ### get_peptide_to_protein_map -/

/-- one record: every distinct (hash key of a) peptide of its digest gets the record's identifier appended -/
def addRecord {Q P : Type} [DecidableEq Q] (pid : P) : List Q → List Q → List (Q × List P) → List (Q × List P)
  | [], _, d => d
  | q :: qs, seen, d =>
    if q ∈ seen then addRecord pid qs seen d else addRecord pid qs (q :: seen) (push d q pid)

/-- `hash_key = peptide[:6] if use_hash_key else peptide` -/
def hashKey (useHash : Bool) (pep : Str) : Str := if useHash then pep.take 6 else pep

structure MapArgs where
  rule : EnzymeRule
  db : Db
  minL : Nat
  maxL : Nat
  mode : Mode
  mc : Nat
  met : Bool
  useHash : Bool
  special : List Char
  parse : ParseId

def cvtErr : C08.Err → Err
  | .indexError => .indexError
  | .unknownEnzyme => .unknownEnzyme

/-- the (hash keys of the) peptides one sequence yields; nothing if the digestion rejects the sequence -/
def keysOf (a : MapArgs) (seq : Str) : List Str :=
  match digestPeptides a.rule seq a.minL a.maxL a.mode a.mc a.met with
  | .ok l => l.map (hashKey a.useHash)
  | .error _ => []

/-- the loop over the records of one file -/
def mapRecords (a : MapArgs) : List (Str × Str) → PMap × SeqMap → Except Err (PMap × SeqMap)
  | [], acc => .ok acc
  | (pid, seq) :: rest, (m, sm) =>
    match digestPeptides a.rule seq a.minL a.maxL a.mode a.mc a.met with
    | .error e => .error (cvtErr e)
    | .ok peps => mapRecords a rest (addRecord pid (peps.map (hashKey a.useHash)) [] m, setKey sm pid seq)

/-- `get_peptide_to_protein_map(fasta_file, db, min_len, …)`: the map and `protein_to_seq_map` -/
def pepMapFile (a : MapArgs) (lines : List Str) : Except Err (PMap × SeqMap) :=
  let r := readFasta a.db a.special a.parse lines
  match mapRecords a r.1 ([], []) with
  | .error e => .error e
  | .ok res => match r.2 with
    | some e => .error e
    | none => .ok res

/-! ### DigestionParams and get_peptide_to_protein_map_from_params -/

structure Params where
  enzyme : String
  digestion : String
  minL : Nat
  maxL : Nat
  mc : Nat
  special : List Char
  met : Bool
  db : Db
  useHash : Bool

/-- `DigestionParams.__init__(enzyme, digestion, min_length, max_length, cleavages, special_aas,
    fasta_contains_decoys)` -/
def mkParams (enzyme digestion : String) (minL maxL mc : Nat) (specialAas : String) (containsDecoys : Bool) :
    Params :=
  let dig := if enzyme == "no_enzyme" then "none" else digestion
  { enzyme := enzyme, digestion := dig, minL := minL, maxL := maxL, mc := mc,
    special := if specialAas == "none" then [] else specialAas.toList,
    met := true, db := if containsDecoys then .target else .concat, useHash := dig == "none" }

/-- `get_peptide_to_protein_map_from_params_single` -/
def pepMapSingle (parse : ParseId) (p : Params) (lines : List Str) : Except Err (PMap × SeqMap) :=
  match lookupEnzyme p.enzyme with
  | none => .error .unknownEnzyme
  | some r => pepMapFile { rule := r, db := p.db, minL := p.minL, maxL := p.maxL, mode := modeOf p.digestion,
                           mc := p.mc, met := p.met, useHash := p.useHash, special := p.special, parse := parse } lines

/-- `for peptide, proteins in tmp.items(): acc[peptide].extend(proteins)` -/
def mergeMap (acc tmp : PMap) : PMap := tmp.foldl (fun d kv => extend d kv.1 kv.2) acc

/-- `protein_to_seq_map |= tmp` -/
def mergeSeqs (acc tmp : SeqMap) : SeqMap := tmp.foldl (fun d kv => setKey d kv.1 kv.2) acc

/-- the (file, parameter set) jobs in loop order: `for fasta_file in fasta_files: for params in list` -/
def jobs (files : List (List Str)) (ps : List Params) : List (List Str × Params) :=
  files.flatMap (fun f => ps.map (fun p => (f, p)))

def fromParamsGo (parse : ParseId) : List (List Str × Params) → PMap × SeqMap → Except Err (PMap × SeqMap)
  | [], acc => .ok acc
  | (f, p) :: rest, (m, sm) =>
    match pepMapSingle parse p f with
    | .error e => .error e
    | .ok (tm, tsm) => fromParamsGo parse rest (mergeMap m tm, if p.useHash then mergeSeqs sm tsm else sm)

/-- `get_peptide_to_protein_map_from_params(fasta_files, digestion_params_list, parse_id=…)`: the merged map
    and the merged sequence map (the code returns the pair iff the latter is non-empty) -/
def fromParams (parse : ParseId) (files : List (List Str)) (ps : List Params) : Except Err (PMap × SeqMap) :=
  fromParamsGo parse (jobs files ps) ([], [])

/-! ### get_proteins -/

def lookupSeq (sm : SeqMap) (p : Str) : Option Str := (sm.find? (fun kv => kv.1 = p)).map (·.2)

def confirm (sm : SeqMap) (pep : Str) : List Str → Except Err (List Str)
  | [] => .ok []
  | p :: ps =>
    match lookupSeq sm p with
    | none => .error .keyError
    | some s => match confirm sm pep ps with
      | .error e => .error e
      | .ok r => .ok (if containsSub pep s then p :: r else r)

/-- `digest.get_proteins(result_of_from_params, peptide)`: hash-key lookup + substring confirmation + sort
    when the result is the pair, plain `dict.get` otherwise -/
def getProteins (res : PMap × SeqMap) (pep : Str) : Except Err (List Str) :=
  match res.2 with
  | [] => .ok (get res.1 pep)
  | _ => match confirm res.2 pep (get res.1 (pep.take 6)) with
    | .error e => .error e
    | .ok l => .ok (sortStrs l)

/-! ### iBAQ peptide numbers -/

/-- `get_ibaq_peptide_to_protein_map`: window clamped to 6–30, no missed cleavages, no Met removal,
    fully specific digestion without hash keys (repaired) -/
def ibaqParams (p : Params) : Params :=
  { p with minL := max 6 p.minL, maxL := min 30 p.maxL, mc := 0, met := false, digestion := "full", useHash := false }

/-- `dict.fromkeys(l)`: first occurrences, in order -/
def uniq : List Str → List Str
  | [] => []
  | x :: xs => x :: (uniq xs).filter (fun y => y ≠ x)

def incr (d : List (Str × Nat)) (k : Str) : List (Str × Nat) :=
  match d with
  | [] => [(k, 1)]
  | (k', n) :: r => if k' = k then (k', n + 1) :: r else (k', n) :: incr r k

/-- `get_num_peptides_per_protein`: a peptide counts once for every protein it lists (repaired: a protein
    listed twice for one peptide is still one peptide) -/
def numPeptidesPerProtein (m : PMap) : List (Str × Nat) :=
  m.foldl (fun d kv => (uniq kv.2).foldl incr d) []

/-- `get_num_ibaq_peptides_per_protein(fasta_files, digestion_params_list, parse_id=…)` -/
def numIbaqPeptides (parse : ParseId) (files : List (List Str)) (ps : List Params) : Except Err (List (Str × Nat)) :=
  match fromParams parse files (ps.map ibaqParams) with
  | .error e => .error e
  | .ok res => .ok (numPeptidesPerProtein res.1)

/-! ### the map file -/

/-- a field `csv.writer` (QUOTE_MINIMAL, tab-delimited) writes without quotes -/
def plainField (s : Str) : Bool := !(s.any (fun c => c == '\t' || c == '"' || c == '\n' || c == '\r'))

/-- the `--peptide_protein_map` writer: `writer.writerow([peptide, ";".join(proteins)])`, `\r\n` line ends -/
def writeMap : PMap → Except Err Str
  | [] => .ok []
  | (pep, prots) :: rest =>
    let f2 := joinSep [';'] prots
    if plainField pep && plainField f2 then
      match writeMap rest with
      | .error e => .error e
      | .ok t => .ok (pep ++ ['\t'] ++ f2 ++ ['\r', '\n'] ++ t)
    else .error .unsupportedCsv

def readRows : List Str → PMap → Except Err PMap
  | [], d => .ok d
  | row :: rest, d =>
    match splitOn ['\t'] row with
    | pep :: f2 :: _ =>
        readRows rest ((splitOn [';'] f2).foldl (fun d p => push d pep p) d)
    | _ => .error .indexError

/-- `get_peptide_to_protein_map_from_file` on the text of a quote-free file with `\r\n` line ends
    (a leading BOM is dropped by `utf-8-sig`) -/
def readMap (text : Str) : Except Err PMap :=
  let t := if text.head? == some (Char.ofNat 0xFEFF) then text.tail else text
  if t.any (fun c => c == '"') then .error .unsupportedCsv else
  let rows := splitOn ['\r', '\n'] t
  -- the text ends with a line terminator: the last piece is empty and is no row
  let rows := if rows.getLast? == some [] then rows.dropLast else rows
  if rows.any (fun r => r.any (fun c => c == '\r' || c == '\n')) then .error .unsupportedCsv
  else readRows rows []

/-- characters a field of the map file must not contain for the quote-free fragment (tab, quote, CR, LF) and,
    for the first field of the file, the byte-order mark `utf-8-sig` would swallow -/
def forbidden : List Char := ['\t', '"', '\r', '\n', Char.ofNat 0xFEFF]

/-- a peptide (first column) the map file can hold verbatim -/
def CleanPep (s : Str) : Prop := ∀ c ∈ s, c ∉ forbidden

/-- a protein identifier the map file can hold verbatim: additionally free of the list separator `;` -/
def CleanProt (s : Str) : Prop := ∀ c ∈ s, c ∉ ';' :: forbidden

end PgFdr.C09
