/-
Model of the MaxLFQ column (picked_group_fdr/columns/lfq.py), stage A, exact over `Rat`.

  _getPeptideIntensities           -> `selected`, `rowKeys`, `cell`, `column`, `total`
  _getLogMedianPeptideRatios       -> `validCol`, `shared`, `pairOk`, `pairs`, `ratio` (exact median)
  _applyLargeRatioStabilization    -> `sumInt`, `pepCount`, `stabWeight`   (decision + weight, no log)
  _buildLinearSystem               -> `buildSystem`, `denseMatrix`
  _solveLinearSystem (zeroing), _scaleEqualSum -> `zeroed`, `scaleEqualSum`, `lfq`
                                      (generic in the number type: run at `Rat`, specified at `ℝ`)

Stage B (scipy `lsqr`, `np.log`, `np.exp`) is not executed here; it is specified in
`Props/C11.lean` (`IsLeastSquares`).  In stage A experiments are indices `0 … n-1`.
The last section models the WRITTEN table: evidence rows with `Experiment` / `Fraction` cells or a design
override, the experiment list and its order, SILAC channels (sample index `e * C + c`), the identified-precursor
filter, and the `LFQ Intensity [<channel> ]<experiment>` header names zipped with the values
(`tableStageA`, `lfqHeaders`, `namedColumns`, `experimentsOf`, `toRows`).
Executable, total, Mathlib-free.
-/
namespace PgFdr.C11

/-- one `PrecursorQuant`, reduced to the fields MaxLFQ reads; `pep = none` is the NaN of a
    match-between-runs precursor; `exp` is the experiment's index in `experiment_to_idx_map` -/
structure Prec where
  peptide : String
  charge : Int
  exp : Nat
  fraction : Int
  intensity : Rat
  pep : Option Rat
deriving DecidableEq, Repr, Inhabited

/-- `helpers.is_mbr(p.post_err_prob) or p.post_err_prob <= postErrProbCutoff` -/
def pepOk (cutoff : Rat) (p : Prec) : Bool :=
  match p.pep with
  | none => true
  | some q => decide (q ≤ cutoff)

/-- `filterMissingAndUnidentified` -/
def keep (cutoff : Rat) (p : Prec) : Bool := decide (0 < p.intensity) && pepOk cutoff p

/-- order of the last key component; NaN is placed last (the component never decides which
    intensity is selected, see `selected_intensity_max`) -/
def pepLe : Option Rat → Option Rat → Bool
  | some a, some b => decide (a ≤ b)
  | _, none => true
  | none, some _ => false

/-- `orderByPEP`: (peptide, charge, experiment, fraction, -intensity, post_err_prob), lexicographic -/
def precLe (a b : Prec) : Bool :=
  decide (a.peptide < b.peptide) || (a.peptide == b.peptide &&
  (decide (a.charge < b.charge) || (a.charge == b.charge &&
  (decide (a.exp < b.exp) || (a.exp == b.exp &&
  (decide (a.fraction < b.fraction) || (a.fraction == b.fraction &&
  (decide (b.intensity < a.intensity) || (a.intensity == b.intensity && pepLe a.pep b.pep)))))))))

/-- same (peptide, charge, experiment, fraction) -/
def sameGroup (a b : Prec) : Bool :=
  a.peptide == b.peptide && a.charge == b.charge && a.exp == b.exp && a.fraction == b.fraction

/-- stable insertion sort (structural, so that `decide` can evaluate examples) -/
def insertBy {α} (le : α → α → Bool) (a : α) : List α → List α
  | [] => [a]
  | b :: r => if le a b then a :: b :: r else b :: insertBy le a r

def isort {α} (le : α → α → Bool) : List α → List α
  | [] => []
  | a :: r => insertBy le a (isort le r)

/-- the loop of `_getPeptideIntensities`: a precursor is used iff its (peptide, charge) or its
    (experiment, fraction) differs from the previously used one -/
def firstsAux : Option Prec → List Prec → List Prec
  | _, [] => []
  | none, p :: r => p :: firstsAux (some p) r
  | some q, p :: r => if sameGroup q p then firstsAux (some q) r else p :: firstsAux (some p) r

/-- the precursors whose intensity is used: filter, sort, first per group -/
def selected (cutoff : Rat) (l : List Prec) : List Prec :=
  firstsAux none (isort precLe (l.filter (keep cutoff)))

/-- first occurrences, in order -/
def nub {α} [BEq α] : List α → List α
  | [] => []
  | a :: r => a :: (nub r).filter (fun b => !(b == a))

def keyLe (a b : String × Int) : Bool :=
  decide (a.1 < b.1) || (a.1 == b.1 && decide (a.2 ≤ b.2))

/-- the keys of the `peptideIntensities` dict, (peptide, charge), in insertion order (= sorted) -/
def rowKeys (sel : List Prec) : List (String × Int) :=
  nub (isort keyLe (sel.map (fun p => (p.peptide, p.charge))))

/-- `peptideIntensities[(peptide, charge)][expIdx]`: sum over the fractions -/
def cell (sel : List Prec) (k : String × Int) (s : Nat) : Rat :=
  ((sel.filter (fun p => (p.peptide, p.charge) == k && p.exp == s)).map (·.intensity)).sum

/-- column `s` of the intensity matrix (one entry per row key) -/
def column (sel : List Prec) (s : Nat) : List Rat := (rowKeys sel).map (fun k => cell sel k s)

/-- `totalIntensity` -/
def total (sel : List Prec) : Rat := (sel.map (·.intensity)).sum

/-! ### pairwise median ratios -/

/-- `np.count_nonzero(intensityMatrix, axis=0)[s]` -/
def nonzeros (c : List Rat) : Nat := (c.filter (fun x => !(x == 0))).length

def validCol (minRatios : Nat) (col : Nat → List Rat) (s : Nat) : Bool := decide (minRatios ≤ nonzeros (col s))

/-- `valid_vals[i, j]`: number of peptides quantified in both samples -/
def shared (ci cj : List Rat) : Nat :=
  ((ci.zip cj).filter (fun ab => decide (0 < ab.1) && decide (0 < ab.2))).length

/-- the non-NaN entries of `col_i / col_j` -/
def ratiosOf (ci cj : List Rat) : List Rat :=
  (ci.zip cj).filterMap (fun ab => if ab.1 == 0 || ab.2 == 0 then none else some (ab.1 / ab.2))

def ratLe (a b : Rat) : Bool := decide (a ≤ b)

/-- exact median: the middle value, or the mean of the two middle values (`bn.nanmedian`);
    0 stands for the NaN of an empty list (never used: a valid pair has a shared peptide) -/
def median (l : List Rat) : Rat :=
  let s := isort ratLe l
  let n := s.length
  if n = 0 then 0
  else if n % 2 = 1 then s.getD (n / 2) 0
  else (s.getD (n / 2 - 1) 0 + s.getD (n / 2) 0) / 2

/-- `fast_lfq_graph.has_edge(i, j)` on the recorded (undirected) edge list -/
def hasEdge (g : List (Nat × Nat)) (i j : Nat) : Bool := g.contains (i, j) || g.contains (j, i)

def numValid (minRatios n : Nat) (col : Nat → List Rat) : Nat :=
  ((List.range n).filter (validCol minRatios col)).length

/-- the FastLFQ edge filter applies iff a graph is given and enough columns are valid -/
def fastActive (graph : Option (List (Nat × Nat))) (minSamples nv : Nat) : Bool :=
  graph.isSome && decide (minSamples ≤ nv)

/-- a pair of samples gets a ratio -/
def pairOk (minRatios : Nat) (graph : Option (List (Nat × Nat))) (minSamples nv : Nat)
    (col : Nat → List Rat) (i j : Nat) : Bool :=
  validCol minRatios col i && validCol minRatios col j &&
  (!(fastActive graph minSamples nv) || hasEdge (graph.getD []) i j) &&
  decide (minRatios ≤ shared (col i) (col j))

/-- `itertools.combinations(range(n), 2)` -/
def allPairs (n : Nat) : List (Nat × Nat) :=
  (List.range n).flatMap (fun i => ((List.range n).filter (fun j => decide (i < j))).map (fun j => (i, j)))

/-- keys of `logMedianPeptideRatios`, in dict order -/
def pairs (minRatios n : Nat) (graph : Option (List (Nat × Nat))) (minSamples : Nat)
    (col : Nat → List Rat) : List (Nat × Nat) :=
  (allPairs n).filter (fun e => pairOk minRatios graph minSamples (numValid minRatios n col) col e.1 e.2)

/-- median peptide ratio of sample `i` over sample `j` (before the logarithm) -/
def ratio (col : Nat → List Rat) (i j : Nat) : Rat := median (ratiosOf (col i) (col j))

/-! ### large-ratio stabilisation (decision and weight; the logarithms are stage B) -/

/-- `_get_intensities(...)[s]`: all identified precursors, not only the selected ones -/
def sumInt (cutoff : Rat) (l : List Prec) (s : Nat) : Rat :=
  ((l.filter (fun p => pepOk cutoff p && p.exp == s)).map (·.intensity)).sum

/-- `_unique_peptide_counts_per_experiment(...)[s]` -/
def pepCount (cutoff : Rat) (l : List Prec) (s : Nat) : Nat :=
  (nub ((l.filter (fun p => pepOk cutoff p && p.exp == s)).map (·.peptide))).length

/-- `_getMaxRatio` -/
def maxRatio (a b : Nat) : Rat := if a < b then (b : Rat) / (a : Rat) else (a : Rat) / (b : Rat)

/-- weight of the summed-intensity ratio: 1 above a count ratio of 5, linear between 2.5 and 5,
    else 0; 0 if a count is 0 -/
def stabWeight (pc1 pc2 : Nat) : Rat :=
  if pc1 = 0 ∨ pc2 = 0 then 0
  else
    let r := maxRatio pc1 pc2
    if 5 < r then 1 else if 5 / 2 < r then (r - 5 / 2) / (5 / 2) else 0

/-- one equation `y i - y j = b` with `b = w · log sratio + (1 - w) · log ratio` -/
structure PairEq where
  i : Nat
  j : Nat
  ratio : Rat
  w : Rat
  sratio : Rat
deriving Repr, DecidableEq

def pairEq (stab : Bool) (cutoff : Rat) (l : List Prec) (col : Nat → List Rat) (e : Nat × Nat) : PairEq :=
  let w := if stab then stabWeight (pepCount cutoff l e.1) (pepCount cutoff l e.2) else 0
  { i := e.1, j := e.2, ratio := ratio col e.1 e.2, w := w,
    sratio := if w == 0 then 1 else sumInt cutoff l e.1 / sumInt cutoff l e.2 }

/-! ### the linear system -/

structure System where
  pairs : List (Nat × Nat)
  /-- support of the anchor row -/
  seen : List Nat
  /-- one row `y z = 0` per experiment without a ratio -/
  zeroCols : List Nat
deriving Repr, DecidableEq

def isSeen (ps : List (Nat × Nat)) (s : Nat) : Bool := ps.any (fun e => e.1 == s || e.2 == s)

/-- `_buildLinearSystem` -/
def buildSystem (n : Nat) (ps : List (Nat × Nat)) : System :=
  { pairs := ps
    seen := (List.range n).filter (isSeen ps)
    zeroCols := (List.range n).filter (fun s => !(isSeen ps s)) }

/-- the matrix as `csr_matrix(...).toarray()` -/
def denseMatrix (n : Nat) (sys : System) : List (List Int) :=
  sys.pairs.map (fun e => (List.range n).map (fun s => if s == e.1 then 1 else if s == e.2 then -1 else 0))
  ++ [(List.range n).map (fun s => if sys.seen.contains s then 1 else 0)]
  ++ sys.zeroCols.map (fun z => (List.range n).map (fun s => if s == z then 1 else 0))

/-! ### after the solve: zeroing and `_scaleEqualSum` (generic number type) -/

section Final
variable {α : Type} [Zero α] [Add α] [Mul α] [Div α] [LT α] [DecidableLT α]

/-- `intensities[zero_columns] = 0.0` -/
def zeroed (zero : List Nat) (v : Nat → α) : Nat → α := fun s => if zero.contains s then 0 else v s

def vsum (n : Nat) (v : Nat → α) : α := ((List.range n).map v).sum

/-- `_scaleEqualSum` -/
def scaleEqualSum (n : Nat) (tot : α) (v : Nat → α) : Nat → α :=
  if 0 < vsum n v then fun s => tot / vsum n v * v s else v

/-- LFQ intensities from the exponentiated least-squares solution `v` -/
def lfq (n : Nat) (zero : List Nat) (tot : α) (v : Nat → α) : Nat → α :=
  scaleEqualSum n tot (zeroed zero v)
end Final

/-! ### stage A as one function (what the driver's `lfqA` runs) -/

structure Opts where
  n : Nat
  cutoff : Rat
  minRatios : Nat
  stab : Bool
  graph : Option (List (Nat × Nat))
  minSamples : Nat

structure StageA where
  keys : List (String × Int)
  cols : List (List Rat)
  total : Rat
  validCols : List Nat
  eqs : List PairEq
  system : System
deriving Repr, DecidableEq

def stageA (o : Opts) (l : List Prec) : StageA :=
  let sel := selected o.cutoff l
  let col := column sel
  let ps := pairs o.minRatios o.n o.graph o.minSamples col
  { keys := rowKeys sel
    cols := (List.range o.n).map col
    total := total sel
    validCols := (List.range o.n).filter (validCol o.minRatios col)
    eqs := ps.map (pairEq o.stab o.cutoff l col)
    system := buildSystem o.n ps }

/-! ## The written table: evidence rows with fractions, SILAC channels, LFQ column names

`parsers/maxquant.parse_mq_evidence_file` (Experiment, Fraction, Intensity, Intensity L [M] H, PEP, Raw file),
`quant/maxquant.add_precursor_quants` (experiment list; `--experimental_design_file` / `--file_list_file`
override experiment and fraction by raw file), `writers/base._retain_only_identified_precursors`,
`LFQIntensityColumns.append_headers` / `append_columns`, and `_getPeptideIntensities` with
`numSilacChannels > 0`.  A labelled sample is (experiment `e`, channel `c`) with column index `e * C + c`. -/

/-- everything of stage A after the selection: `sel` are the precursors whose intensities fill the matrix,
    `lstab` is the list the large-ratio stabilisation reads.  `stageA o l = stageAWith o (selected o.cutoff l) l`
    by definition (`stageA_eq_with`). -/
def stageAWith (o : Opts) (sel lstab : List Prec) : StageA :=
  let col := column sel
  let ps := pairs o.minRatios o.n o.graph o.minSamples col
  { keys := rowKeys sel
    cols := (List.range o.n).map col
    total := total sel
    validCols := (List.range o.n).filter (validCol o.minRatios col)
    eqs := ps.map (pairEq o.stab o.cutoff lstab col)
    system := buildSystem o.n ps }

/-- a `PrecursorQuant` with its SILAC channel intensities (`silac_intensities`; `[]` = label-free);
    `base.exp` is the index of the EXPERIMENT, `base.intensity` the `Intensity` cell -/
structure Row where
  base : Prec
  silac : List Rat
deriving DecidableEq, Repr, Inhabited

def rowLe (a b : Row) : Bool := precLe a.base b.base

/-- `firstsAux` on rows: the decision reads only the base fields, the channel intensities ride along -/
def firstsAuxR : Option Row → List Row → List Row
  | _, [] => []
  | none, p :: r => p :: firstsAuxR (some p) r
  | some q, p :: r => if sameGroup q.base p.base then firstsAuxR (some q) r else p :: firstsAuxR (some p) r

/-- filter on `Intensity > 0` and the PEP, stable sort by `orderByPEP`, first per
    (peptide, charge, experiment, fraction) — exactly `selected`, on rows -/
def selectedRows (cutoff : Rat) (l : List Row) : List Row :=
  firstsAuxR none (isort rowLe (l.filter (fun r => keep cutoff r.base)))

/-- `for silacIdx, silacIntensity in enumerate(precursor.silac_intensities)`: one entry per channel,
    sample index `expIdx * numSilacChannels + silacIdx` -/
def expandFrom (b : Prec) (C : Nat) : Nat → List Rat → List Prec
  | _, [] => []
  | c, x :: xs => { b with exp := b.exp * C + c, intensity := x } :: expandFrom b C (c + 1) xs

/-- the per-sample entries of one precursor: itself when label-free, one per channel with SILAC -/
def expandRow (C : Nat) (r : Row) : List Prec := if C = 0 then [r.base] else expandFrom r.base C 0 r.silac

/-- `writers/base._retain_only_identified_precursors`: a row stays iff some row of the same
    (peptide, charge) has a PEP `<= cutoff` (a NaN PEP never identifies) -/
def identifiedKey (cutoff : Rat) (rows : List Row) (k : String × Int) : Bool :=
  rows.any (fun r => (r.base.peptide, r.base.charge) == k &&
    (match r.base.pep with
     | some q => decide (q ≤ cutoff)
     | none => false))

def retainIdentified (cutoff : Rat) (rows : List Row) : List Row :=
  rows.filter (fun r => identifiedKey cutoff rows (r.base.peptide, r.base.charge))

/-- number of LFQ samples: `len(experiment_to_idx_map) * max(1, num_silac_channels)` -/
def numSamples (n C : Nat) : Nat := n * max 1 C

/-- the per-sample precursors that fill the intensity matrix: identified-precursor filter, selection of the best
    row per (peptide, charge, experiment, fraction), one entry per channel -/
def tableSel (cutoff : Rat) (C : Nat) (rows : List Row) : List Prec :=
  (selectedRows cutoff (retainIdentified cutoff rows)).flatMap (expandRow C)

/-- the per-sample precursors the large-ratio stabilisation reads (`_get_intensities`,
    `_unique_peptide_counts_per_experiment` see ALL retained rows, not only the selected ones) -/
def tableStab (cutoff : Rat) (C : Nat) (rows : List Row) : List Prec :=
  (retainIdentified cutoff rows).flatMap (expandRow C)

/-- stage A of one protein group of the written table: `o.n` = number of EXPERIMENTS, `C` = number of
    SILAC channels (0 = label-free); the FastLFQ graph `o.graph` is used as the code uses it
    (`has_edge(i, j)` on SAMPLE indices) -/
def tableStageA (o : Opts) (C : Nat) (rows : List Row) : StageA :=
  stageAWith { o with n := numSamples o.n C } (tableSel o.cutoff C rows) (tableStab o.cutoff C rows)

/-! ### fractions: what a cell of the intensity matrix must hold -/

/-- membership in the cell (row key `k`, sample `s`) — the filter of `cell` -/
def inCell (k : String × Int) (s : Nat) (p : Prec) : Bool := (p.peptide, p.charge) == k && p.exp == s

/-- the fractions in which precursor `k` has an identified, quantified row in sample `s` -/
def fractionsOf (cutoff : Rat) (l : List Prec) (k : String × Int) (s : Nat) : List Int :=
  nub ((l.filter (fun p => keep cutoff p && inCell k s p)).map (·.fraction))

def rmax (a b : Rat) : Rat := if a ≤ b then b else a

def maxOf : List Rat → Rat
  | [] => 0
  | x :: xs => rmax x (maxOf xs)

/-- the intensity one (peptide, charge, experiment, fraction) group contributes: the highest intensity among
    its identified, quantified rows -/
def groupBest (cutoff : Rat) (l : List Prec) (k : String × Int) (s : Nat) (f : Int) : Rat :=
  maxOf ((l.filter (fun p => keep cutoff p && inCell k s p && p.fraction == f)).map (·.intensity))

/-- `aggregateFractions`: per (precursor, sample) the sum over the fractions of the group intensities -/
def aggregateFractions (cutoff : Rat) (l : List Prec) (k : String × Int) (s : Nat) : Rat :=
  ((fractionsOf cutoff l k s).map (groupBest cutoff l k s)).sum

/-! ### column names -/

/-- `sum_and_ibaq.get_silac_channels`; `none` = "Found a number of SILAC channels not equal to 2 or 3" -/
def silacChannels : Nat → Option (List (List Char))
  | 0 => some []
  | 2 => some [['L'], ['H']]
  | 3 => some [['L'], ['M'], ['H']]
  | _ => none

def lfqPrefix : List Char := "LFQ Intensity ".toList

/-- `"LFQ Intensity " + silac_channel + " " + experiment` / `"LFQ Intensity " + experiment` -/
def lfqHeader (ch : Option (List Char)) (e : List Char) : List Char :=
  match ch with
  | none => lfqPrefix ++ e
  | some c => lfqPrefix ++ (c ++ ' ' :: e)

/-- `LFQIntensityColumns.append_headers`: experiment-major, channels inside -/
def lfqHeaders (chans : List (List Char)) (exps : List (List Char)) : List (List Char) :=
  exps.flatMap (fun e => if chans.isEmpty then [lfqHeader none e] else chans.map (fun c => lfqHeader (some c) e))

/-- what `pgr.extend(intensities)` appends: the return value of `_getLFQIntensities`, by sample index -/
def lfqValues {α : Type} (n C : Nat) (v : Nat → α) : List α := (List.range (numSamples n C)).map v

/-- `LFQIntensityColumns.is_valid` -/
def lfqValid (n : Nat) (tmt : Int) : Bool := decide (1 < n) && decide (tmt ≤ 0)

/-- the LFQ part of one written row: header names zipped with the values, as `ProteinGroupResults.write`
    pairs `headers` with `extraColumns` by position -/
def namedColumns {α : Type} (chans : List (List Char)) (exps : List (List Char)) (v : Nat → α) :
    List (List Char × α) :=
  (lfqHeaders chans exps).zip (lfqValues exps.length chans.length v)

/-! ### from evidence rows to precursors -/

/-- the cells of one evidence row the quantification reads (`fraction = -1`: no `Fraction` column) -/
structure EvRow where
  peptide : String
  charge : Int
  rawFile : String
  experiment : String
  fraction : Int
  intensity : Rat
  silac : List Rat
  pep : Option Rat
deriving DecidableEq, Repr, Inhabited

/-- one line of the experimental design after `normalize_experimental_design`: Name (stem), Experiment, Fraction -/
abbrev Design := List (String × String × Int)

/-- `file_mapping[raw_file]` -/
def designLookup (d : Design) (raw : String) : Option (String × Int) :=
  match d.find? (fun x => x.1 == raw) with
  | some x => some x.2
  | none => none

def strLe (a b : String) : Bool := decide (a < b) || a == b

/-- `protein_group_results.experiments`: with a design `experimental_design["Experiment"].unique()` (order of
    first appearance), else `sorted(parsed_experiments)` -/
def experimentsOf (d : Option Design) (rows : List EvRow) : List String :=
  match d with
  | some d => nub (d.map (fun x => x.2.1))
  | none => nub (isort strLe (rows.map (·.experiment)))

def indexOfStr (e : String) : List String → Option Nat
  | [] => none
  | x :: r => if x == e then some 0 else (indexOfStr e r).map (· + 1)

/-- one evidence row as a MaxLFQ precursor: experiment and fraction overridden by the design when there is one
    (`none` = the raw file is not in the design, a `KeyError`, or the experiment is unknown) -/
def toRow (d : Option Design) (exps : List String) (r : EvRow) : Option Row :=
  let ef : Option (String × Int) := match d with
    | some d => designLookup d r.rawFile
    | none => some (r.experiment, r.fraction)
  match ef with
  | none => none
  | some (e, f) =>
    match indexOfStr e exps with
    | none => none
    | some i => some { base := { peptide := r.peptide, charge := r.charge, exp := i, fraction := f,
                                 intensity := r.intensity, pep := r.pep }, silac := r.silac }

def toRows (d : Option Design) (exps : List String) : List EvRow → Option (List Row)
  | [] => some []
  | r :: rest =>
    match toRow d exps r, toRows d exps rest with
    | some x, some xs => some (x :: xs)
    | _, _ => none

end PgFdr.C11
