/-
Model of the MaxLFQ column (picked_group_fdr/columns/lfq.py), stage A, exact over `Rat`.

  _getPeptideIntensities           -> `selected`, `rowKeys`, `cell`, `column`, `total`
  _getLogMedianPeptideRatios       -> `validCol`, `shared`, `pairOk`, `pairs`, `ratio` (exact median)
  _applyLargeRatioStabilization    -> `sumInt`, `pepCount`, `stabWeight`   (decision + weight, no log)
  _buildLinearSystem               -> `buildSystem`, `denseMatrix`
  _solveLinearSystem (zeroing), _scaleEqualSum -> `zeroed`, `scaleEqualSum`, `lfq`
                                      (generic in the number type: run at `Rat`, specified at `ℝ`)

Stage B (scipy `lsqr`, `np.log`, `np.exp`) is not executed here; it is specified in
`Props/C11.lean` (`IsLeastSquares`).  Experiments are indices `0 … n-1` (the model has no
experiment names).  SILAC channels are not modelled (`numSilacChannels = 0`).
Executable, total, Mathlib-free.
-/
namespace PgFdr.C11

/-- one `PrecursorQuant`, reduced to the fields MaxLFQ reads; `pep = none` is the NaN of a
    match-between-runs precursor; `exp` is the experiment's index in `experiment_to_idx_map` -/
structure Prec where
  peptide : String
  charge : Int
  exp : Nat
  fraction : Int
  intensity : Rat
  pep : Option Rat
deriving DecidableEq, Repr, Inhabited

/-- `helpers.is_mbr(p.post_err_prob) or p.post_err_prob <= postErrProbCutoff` -/
def pepOk (cutoff : Rat) (p : Prec) : Bool :=
  match p.pep with
  | none => true
  | some q => decide (q ≤ cutoff)

/-- `filterMissingAndUnidentified` -/
def keep (cutoff : Rat) (p : Prec) : Bool := decide (0 < p.intensity) && pepOk cutoff p

/-- order of the last key component; NaN is placed last (the component never decides which
    intensity is selected, see `selected_intensity_max`) -/
def pepLe : Option Rat → Option Rat → Bool
  | some a, some b => decide (a ≤ b)
  | _, none => true
  | none, some _ => false

/-- `orderByPEP`: (peptide, charge, experiment, fraction, -intensity, post_err_prob), lexicographic -/
def precLe (a b : Prec) : Bool :=
  decide (a.peptide < b.peptide) || (a.peptide == b.peptide &&
  (decide (a.charge < b.charge) || (a.charge == b.charge &&
  (decide (a.exp < b.exp) || (a.exp == b.exp &&
  (decide (a.fraction < b.fraction) || (a.fraction == b.fraction &&
  (decide (b.intensity < a.intensity) || (a.intensity == b.intensity && pepLe a.pep b.pep)))))))))

/-- same (peptide, charge, experiment, fraction) -/
def sameGroup (a b : Prec) : Bool :=
  a.peptide == b.peptide && a.charge == b.charge && a.exp == b.exp && a.fraction == b.fraction

/-- stable insertion sort (structural, so that `decide` can evaluate examples) -/
def insertBy {α} (le : α → α → Bool) (a : α) : List α → List α
  | [] => [a]
  | b :: r => if le a b then a :: b :: r else b :: insertBy le a r

def isort {α} (le : α → α → Bool) : List α → List α
  | [] => []
  | a :: r => insertBy le a (isort le r)

/-- the loop of `_getPeptideIntensities`: a precursor is used iff its (peptide, charge) or its
    (experiment, fraction) differs from the previously used one -/
def firstsAux : Option Prec → List Prec → List Prec
  | _, [] => []
  | none, p :: r => p :: firstsAux (some p) r
  | some q, p :: r => if sameGroup q p then firstsAux (some q) r else p :: firstsAux (some p) r

/-- the precursors whose intensity is used: filter, sort, first per group -/
def selected (cutoff : Rat) (l : List Prec) : List Prec :=
  firstsAux none (isort precLe (l.filter (keep cutoff)))

/-- first occurrences, in order -/
def nub {α} [BEq α] : List α → List α
  | [] => []
  | a :: r => a :: (nub r).filter (fun b => !(b == a))

def keyLe (a b : String × Int) : Bool :=
  decide (a.1 < b.1) || (a.1 == b.1 && decide (a.2 ≤ b.2))

/-- the keys of the `peptideIntensities` dict, (peptide, charge), in insertion order (= sorted) -/
def rowKeys (sel : List Prec) : List (String × Int) :=
  nub (isort keyLe (sel.map (fun p => (p.peptide, p.charge))))

/-- `peptideIntensities[(peptide, charge)][expIdx]`: sum over the fractions -/
def cell (sel : List Prec) (k : String × Int) (s : Nat) : Rat :=
  ((sel.filter (fun p => (p.peptide, p.charge) == k && p.exp == s)).map (·.intensity)).sum

/-- column `s` of the intensity matrix (one entry per row key) -/
def column (sel : List Prec) (s : Nat) : List Rat := (rowKeys sel).map (fun k => cell sel k s)

/-- `totalIntensity` -/
def total (sel : List Prec) : Rat := (sel.map (·.intensity)).sum

/-! ### pairwise median ratios -/

/-- `np.count_nonzero(intensityMatrix, axis=0)[s]` -/
def nonzeros (c : List Rat) : Nat := (c.filter (fun x => !(x == 0))).length

def validCol (minRatios : Nat) (col : Nat → List Rat) (s : Nat) : Bool := decide (minRatios ≤ nonzeros (col s))

/-- `valid_vals[i, j]`: number of peptides quantified in both samples -/
def shared (ci cj : List Rat) : Nat :=
  ((ci.zip cj).filter (fun ab => decide (0 < ab.1) && decide (0 < ab.2))).length

/-- the non-NaN entries of `col_i / col_j` -/
def ratiosOf (ci cj : List Rat) : List Rat :=
  (ci.zip cj).filterMap (fun ab => if ab.1 == 0 || ab.2 == 0 then none else some (ab.1 / ab.2))

def ratLe (a b : Rat) : Bool := decide (a ≤ b)

/-- exact median: the middle value, or the mean of the two middle values (`bn.nanmedian`);
    0 stands for the NaN of an empty list (never used: a valid pair has a shared peptide) -/
def median (l : List Rat) : Rat :=
  let s := isort ratLe l
  let n := s.length
  if n = 0 then 0
  else if n % 2 = 1 then s.getD (n / 2) 0
  else (s.getD (n / 2 - 1) 0 + s.getD (n / 2) 0) / 2

/-- `fast_lfq_graph.has_edge(i, j)` on the recorded (undirected) edge list -/
def hasEdge (g : List (Nat × Nat)) (i j : Nat) : Bool := g.contains (i, j) || g.contains (j, i)

def numValid (minRatios n : Nat) (col : Nat → List Rat) : Nat :=
  ((List.range n).filter (validCol minRatios col)).length

/-- the FastLFQ edge filter applies iff a graph is given and enough columns are valid -/
def fastActive (graph : Option (List (Nat × Nat))) (minSamples nv : Nat) : Bool :=
  graph.isSome && decide (minSamples ≤ nv)

/-- a pair of samples gets a ratio -/
def pairOk (minRatios : Nat) (graph : Option (List (Nat × Nat))) (minSamples nv : Nat)
    (col : Nat → List Rat) (i j : Nat) : Bool :=
  validCol minRatios col i && validCol minRatios col j &&
  (!(fastActive graph minSamples nv) || hasEdge (graph.getD []) i j) &&
  decide (minRatios ≤ shared (col i) (col j))

/-- `itertools.combinations(range(n), 2)` -/
def allPairs (n : Nat) : List (Nat × Nat) :=
  (List.range n).flatMap (fun i => ((List.range n).filter (fun j => decide (i < j))).map (fun j => (i, j)))

/-- keys of `logMedianPeptideRatios`, in dict order -/
def pairs (minRatios n : Nat) (graph : Option (List (Nat × Nat))) (minSamples : Nat)
    (col : Nat → List Rat) : List (Nat × Nat) :=
  (allPairs n).filter (fun e => pairOk minRatios graph minSamples (numValid minRatios n col) col e.1 e.2)

/-- median peptide ratio of sample `i` over sample `j` (before the logarithm) -/
def ratio (col : Nat → List Rat) (i j : Nat) : Rat := median (ratiosOf (col i) (col j))

/-! ### large-ratio stabilisation (decision and weight; the logarithms are stage B) -/

/-- `_get_intensities(...)[s]`: all identified precursors, not only the selected ones -/
def sumInt (cutoff : Rat) (l : List Prec) (s : Nat) : Rat :=
  ((l.filter (fun p => pepOk cutoff p && p.exp == s)).map (·.intensity)).sum

/-- `_unique_peptide_counts_per_experiment(...)[s]` -/
def pepCount (cutoff : Rat) (l : List Prec) (s : Nat) : Nat :=
  (nub ((l.filter (fun p => pepOk cutoff p && p.exp == s)).map (·.peptide))).length

/-- `_getMaxRatio` -/
def maxRatio (a b : Nat) : Rat := if a < b then (b : Rat) / (a : Rat) else (a : Rat) / (b : Rat)

/-- weight of the summed-intensity ratio: 1 above a count ratio of 5, linear between 2.5 and 5,
    else 0; 0 if a count is 0 -/
def stabWeight (pc1 pc2 : Nat) : Rat :=
  if pc1 = 0 ∨ pc2 = 0 then 0
  else
    let r := maxRatio pc1 pc2
    if 5 < r then 1 else if 5 / 2 < r then (r - 5 / 2) / (5 / 2) else 0

/-- one equation `y i - y j = b` with `b = w · log sratio + (1 - w) · log ratio` -/
structure PairEq where
  i : Nat
  j : Nat
  ratio : Rat
  w : Rat
  sratio : Rat
deriving Repr, DecidableEq

def pairEq (stab : Bool) (cutoff : Rat) (l : List Prec) (col : Nat → List Rat) (e : Nat × Nat) : PairEq :=
  let w := if stab then stabWeight (pepCount cutoff l e.1) (pepCount cutoff l e.2) else 0
  { i := e.1, j := e.2, ratio := ratio col e.1 e.2, w := w,
    sratio := if w == 0 then 1 else sumInt cutoff l e.1 / sumInt cutoff l e.2 }

/-! ### the linear system -/

structure System where
  pairs : List (Nat × Nat)
  /-- support of the anchor row -/
  seen : List Nat
  /-- one row `y z = 0` per experiment without a ratio -/
  zeroCols : List Nat
deriving Repr, DecidableEq

def isSeen (ps : List (Nat × Nat)) (s : Nat) : Bool := ps.any (fun e => e.1 == s || e.2 == s)

/-- `_buildLinearSystem` -/
def buildSystem (n : Nat) (ps : List (Nat × Nat)) : System :=
  { pairs := ps
    seen := (List.range n).filter (isSeen ps)
    zeroCols := (List.range n).filter (fun s => !(isSeen ps s)) }

/-- the matrix as `csr_matrix(...).toarray()` -/
def denseMatrix (n : Nat) (sys : System) : List (List Int) :=
  sys.pairs.map (fun e => (List.range n).map (fun s => if s == e.1 then 1 else if s == e.2 then -1 else 0))
  ++ [(List.range n).map (fun s => if sys.seen.contains s then 1 else 0)]
  ++ sys.zeroCols.map (fun z => (List.range n).map (fun s => if s == z then 1 else 0))

/-! ### after the solve: zeroing and `_scaleEqualSum` (generic number type) -/

section Final
variable {α : Type} [Zero α] [Add α] [Mul α] [Div α] [LT α] [DecidableLT α]

/-- `intensities[zero_columns] = 0.0` -/
def zeroed (zero : List Nat) (v : Nat → α) : Nat → α := fun s => if zero.contains s then 0 else v s

def vsum (n : Nat) (v : Nat → α) : α := ((List.range n).map v).sum

/-- `_scaleEqualSum` -/
def scaleEqualSum (n : Nat) (tot : α) (v : Nat → α) : Nat → α :=
  if 0 < vsum n v then fun s => tot / vsum n v * v s else v

/-- LFQ intensities from the exponentiated least-squares solution `v` -/
def lfq (n : Nat) (zero : List Nat) (tot : α) (v : Nat → α) : Nat → α :=
  scaleEqualSum n tot (zeroed zero v)
end Final

/-! ### stage A as one function (what the driver's `lfqA` runs) -/

structure Opts where
  n : Nat
  cutoff : Rat
  minRatios : Nat
  stab : Bool
  graph : Option (List (Nat × Nat))
  minSamples : Nat

structure StageA where
  keys : List (String × Int)
  cols : List (List Rat)
  total : Rat
  validCols : List Nat
  eqs : List PairEq
  system : System
deriving Repr, DecidableEq

def stageA (o : Opts) (l : List Prec) : StageA :=
  let sel := selected o.cutoff l
  let col := column sel
  let ps := pairs o.minRatios o.n o.graph o.minSamples col
  { keys := rowKeys sel
    cols := (List.range o.n).map col
    total := total sel
    validCols := (List.range o.n).filter (validCol o.minRatios col)
    eqs := ps.map (pairEq o.stab o.cutoff l col)
    system := buildSystem o.n ps }

end PgFdr.C11
