/-
Model of `picked_group_fdr/protein_groups.py:ProteinGroups` as a state machine, and of the two
helpers of `picked_group_fdr/helpers.py` that interpret its multi-protein lookups.

  class ProteinGroups:   protein_groups : List[List[str]]          → `PG.groups`
                         protein_to_group_idx_map : Dict[str,int]  → `PG.index` (association list,
                                                                      first match = the dict's value)
                         valid_idx : bool                          → `PG.valid`

Every method is a case of `step : PG P → Op P → PG P × Out P`; the loud failures of the code are the
enum `Err` (`Exception("Trying to get group index while index is invalid")` → `invalidIndex`,
`KeyError` → `unknownProtein`, `IndexError` → `indexError`).

The multi-protein lookup `get_protein_groups` is modelled for the REPAIRED behaviour demanded by
property C20 ("a protein contained in no group is reported as missing and is never mapped to an
existing group"): the −1 marker of `get_protein_group_idxs` is dropped instead of being used as a
Python list position (fixes/C20-unknown-protein-last-group.diff).  Everything else follows the code.

Besides the methods of the class the machine has steps for the package's other mutating callers, for its
readers (`Op.read`) and for its LOOKUP CALLERS (`Op.rows`, `Caller`, `callerAnswer`): the pipeline tools and
quantification readers that look the proteins of the rows of a file up in the collection they are handed
(`update_fragpipe_psm_file`, `add_precursor_quants` / `update_precursor_quants_single` of quant/*.py,
`collect_peptide_scores_per_protein`, `FragpipeProteinAnnotationsColumns.append_columns`).  `stepAt` is
the step of a process with several live collections.

Executable, total, Mathlib-free; polymorphic in the identifier type (the driver uses `String`).
-/
namespace PgFdr.C20
variable {P : Type} [DecidableEq P]

/-- distinct elements in first-appearance order (iteration order is irrelevant for Python sets; the
    harness sorts both sides) -/
def firsts {α : Type} [DecidableEq α] : List α → List α
  | [] => []
  | a :: l => a :: (firsts l).filter (fun x => decide (x ≠ a))

structure PG (P : Type) where
  groups : List (List P)
  /-- `protein_to_group_idx_map`; `List.lookup` returns the first entry, so `buildIndex` lists later
      groups first (a dict assignment overwrites) -/
  index  : List (P × Nat)
  valid  : Bool
deriving Repr

inductive Err | invalidIndex | unknownProtein | indexError
deriving DecidableEq, Repr

def Err.name : Err → String
  | .invalidIndex => "invalid_index"
  | .unknownProtein => "unknown_protein"
  | .indexError => "index_error"

/-- `ProteinGroups()` -/
def init : PG P := ⟨[], [], false⟩

/-- `create_index`: position of the last group containing each protein -/
def buildIndex (gs : List (List P)) : List (P × Nat) :=
  (gs.zipIdx.flatMap fun (g, i) => g.map fun p => (p, i)).reverse

/-- `ProteinGroups.init_from_list` -/
def ofList (gs : List (List P)) : PG P := ⟨gs, buildIndex gs, true⟩

/-- the (possibly stale) dict entry, no validity test -/
def rawIdx (pg : PG P) (p : P) : Option Nat := pg.index.lookup p

/-- `_get_protein_group_idx(protein, check_idx_valid)` -/
def getIdx (pg : PG P) (p : P) (check : Bool := true) : Except Err Nat :=
  if check && !pg.valid then .error .invalidIndex
  else match pg.index.lookup p with
    | none => .error .unknownProtein
    | some i => .ok i

/-- `get_protein_group(protein, check_idx_valid)` -/
def getGroup (pg : PG P) (p : P) (check : Bool := true) : Except Err (List P) :=
  match getIdx pg p check with
  | .error e => .error e
  | .ok i => match pg.groups[i]? with
    | some g => .ok g
    | none => .error .indexError

/-- `get_protein_group_idxs(proteins, check_idx_valid)`: the *set* of positions, `none` where the code
    puts the marker −1 -/
def getIdxs (pg : PG P) (prots : List P) (check : Bool := true) : Except Err (List (Option Nat)) :=
  if check && !pg.valid then .error .invalidIndex
  else .ok (firsts (prots.map (fun p => pg.index.lookup p)))

/-- `get_protein_groups(proteins, check_idx_valid)`, repaired: one entry `(position, group)` per
    distinct position, the −1 marker dropped -/
def getGroups (pg : PG P) (prots : List P) (check : Bool := true) : Except Err (List (Nat × List P)) :=
  match getIdxs pg prots check with
  | .error e => .error e
  | .ok is => .ok (is.filterMap (fun o => o.bind (fun i => (pg.groups[i]?).map (fun g => (i, g)))))

/-- `get_leading_proteins(proteins)`: `set(map(lambda p: get_protein_group(p)[0], proteins))`,
    evaluated left to right, the first failure wins; an empty argument never looks at the flag -/
def leadingList (pg : PG P) : List P → Except Err (List P)
  | [] => .ok []
  | p :: ps =>
    match getGroup pg p true with
    | .error e => .error e
    | .ok [] => .error .indexError
    | .ok (a :: _) =>
      match leadingList pg ps with
      | .error e => .error e
      | .ok l => .ok (a :: l)

def getLeading (pg : PG P) (prots : List P) : Except Err (List P) :=
  match leadingList pg prots with
  | .error e => .error e
  | .ok l => .ok (firsts l)

/-- `helpers.is_missing_in_protein_groups` on a set of positions: empty or `{-1}` -/
def isMissingIdxs (is : List (Option Nat)) : Bool := is.all (fun o => o.isNone)
/-- `helpers.is_shared_peptide` on a set of positions (the −1 marker counts as a position) -/
def isSharedIdxs (is : List (Option Nat)) : Bool := decide ((firsts is).length > 1)
/-- `helpers.is_missing_in_protein_groups` on the list returned by `get_protein_groups`
    (`update_fragpipe_results.py:224-226`): only the length test can fire on a list -/
def isMissingGroups (gs : List (Nat × List P)) : Bool := gs.isEmpty
/-- `helpers.is_shared_peptide` on the list returned by `get_protein_groups` -/
def isSharedGroups (gs : List (Nat × List P)) : Bool := decide (gs.length > 1)

/-- `get_all_proteins` (a set; first-appearance order here) -/
def allProteins (pg : PG P) : List P := firsts pg.groups.flatten

/-- `merge_groups(superset_protein, protein)` on the possibly stale index.  `none` = the code raised
    before changing anything. -/
def mergeGroups (pg : PG P) (sup p : P) : Except Err (PG P) :=
  match rawIdx pg sup, rawIdx pg p with
  | some si, some pi =>
    match pg.groups[si]?, pg.groups[pi]? with
    | some gs, some gp =>
      .ok { pg with groups := (pg.groups.set si (gs ++ gp)).set pi [], valid := false }
    | _, _ => .error .indexError
  | _, _ => .error .unknownProtein

/-- `remove_empty_groups` -/
def removeEmpty (pg : PG P) : PG P :=
  let gs := pg.groups.filter (fun g => !g.isEmpty)
  { groups := gs, index := buildIndex gs, valid := true }

/-- the groups of `other` restricted to proteins not yet present (computed once, before appending) -/
def unseenParts (pg : PG P) (other : List (List P)) : List (List P) :=
  let known := pg.groups.flatten
  other.map fun g => g.filter (fun p => decide (p ∉ known))

/-- `add_unseen_protein_groups`: new state and the positions (in `other`) of the groups that
    contributed nothing (the code returns them with an `OBSOLETE__` prefix) -/
def addUnseen (pg : PG P) (other : List (List P)) : PG P × List (Nat × List P) :=
  let parts := unseenParts pg other
  let fresh := parts.filter (fun g => !g.isEmpty)
  let gs := pg.groups ++ fresh
  let obs := (other.zip parts).zipIdx.filterMap (fun ((g, part), i) => if part.isEmpty then some (i, g) else none)
  ({ groups := gs, index := buildIndex gs, valid := true }, obs)

/-- the inner loop of `graphs.ConnectedProteinGraphs.get_connected_proteins` /
    `decouple_connected_proteins` for one connected component: `for protein in proteins[1:]:
    protein_groups.merge_groups(leading_protein, protein)`.  The first `merge_groups` that raises
    ends the call; the state is what the earlier merges left. -/
def mergeInto (pg : PG P) (lead : P) : List P → PG P × Option Err
  | [] => (pg, none)
  | p :: ps =>
    match mergeGroups pg lead p with
    | .ok pg' => mergeInto pg' lead ps
    | .error e => (pg, some e)

/-- `ConnectedProteinGraphs.get_connected_proteins(protein_groups)` (and `decouple_connected_proteins`
    on components that cannot be split), graphs.py:104-111 / 118-124: every component (its sorted
    protein nodes) is merged into the group of its first protein, then `remove_empty_groups`.
    A component without protein node fails on `proteins[0]` (`IndexError`). -/
def mergeComponents (pg : PG P) : List (List P) → PG P × Option Err
  | [] => (removeEmpty pg, none)
  | [] :: _ => (pg, some .indexError)
  | (lead :: ps) :: cs =>
    match mergeInto pg lead ps with
    | (pg', none) => mergeComponents pg' cs
    | (pg', some e) => (pg', some e)

/-- The package's READERS of a collection: functions that are handed a `ProteinGroups` object (or the
    group lists of one) and must leave it as it is.
    * `resultRows` — `results.ProteinGroupResults.from_protein_groups(pg, infos, scores, qvals, cutoff,
      keep_all_proteins)` (iterates the group lists, hands each to `ProteinGroupResult.from_protein_group`);
    * `competition` — `competition.ProteinCompetitionStrategy.do_competition(pg, infos, score_type)` (its
      returned collection SHARES the group lists with `pg`);
    * `collectScores` — `scoring_strategy.ProteinScoringStrategy.collect_peptide_scores_per_protein(pg,
      peptide_info_list, …)` (one `get_protein_group_idxs` per peptide);
    * `reportChain` — the three in the order of `picked_group_fdr.get_protein_group_results`:
      collect → competition → result rows of the collection the competition returned;
    * `precursorQuants` — `quant.maxquant.add_precursor_quants(…, pg, results, …)` (one
      `get_protein_group_idxs` per evidence row). -/
inductive Reader | resultRows | competition | collectScores | reportChain | precursorQuants
deriving DecidableEq, Repr

/-- does the reader look proteins up through the index (then it fails loudly while the flag is down;
    the harness always hands it at least one peptide / evidence row) -/
def Reader.needsIndex : Reader → Bool
  | .resultRows | .competition => false
  | .collectScores | .reportChain | .precursorQuants => true

/-- The package's LOOKUP CALLERS: functions outside `protein_groups.py` that are handed a collection and
    a file (or list) of EXTERNAL ROWS, look the proteins of every row up in the collection and decide from
    the answer what happens to the row.
    * `psmUpdate` — `pipeline.update_fragpipe_results.update_fragpipe_psm_file(psm.tsv, pg, annotations, …)`:
      `get_protein_groups(proteins)` per PSM row, `is_missing` / `is_shared` on the list of groups, then the
      row is written with `row_protein_groups[0][0]` as its protein when that leader is one of the row's
      proteins (update_fragpipe_results.py:221-268);
    * `fragpipeQuant` / `fragpipeIon` — `quant.fragpipe.add_precursor_quants` (psm.tsv) and
      `update_precursor_quants_single` (combined_ion.tsv), also reached through
      `add_precursor_quants_multiple`, `generate_fragpipe_protein_file`, `generate_fragpipe_combined_protein_file`;
    * `sageQuant` / `sageLfq` — `quant.sage.add_precursor_quants` (results.sage.tsv) and
      `update_precursor_quants_single` (lfq.tsv);
    * `maxquantQuant` — `quant.maxquant.add_precursor_quants` (evidence.txt);
    * `collectScores` — `ProteinScoringStrategy.collect_peptide_scores_per_protein` (peptide → proteins dict);
      all of these: `get_protein_group_idxs(proteins)` per row, `is_missing` / `is_shared` on the position
      set (`discard_shared_peptides` is `True` at every call site of the package), then the row is
      attached to the result row / info list at the one position;
    * `annotate` — `columns.FragpipeProteinAnnotationsColumns.append_columns` (one `get_protein_groups` per
      result row, annotated with `row_protein_groups[0][0]`; `[][0]` raises `IndexError`). -/
inductive Caller
  | psmUpdate | fragpipeQuant | fragpipeIon | sageQuant | sageLfq | maxquantQuant | collectScores | annotate
deriving DecidableEq, Repr

/-- what a lookup caller observably does with one external row -/
inductive RowAns (P : Type) where
  /-- not written / attached nowhere (missing, shared between groups, or the leader is not a row protein) -/
  | dropped
  /-- `update_fragpipe_psm_file`: the row was written with this leading protein -/
  | written (lead : P)
  /-- the quantification callers: the row was attached to the result row at this position -/
  | attached (i : Nat)
  /-- `append_columns`: the row is annotated with the first protein of `row_protein_groups[0]`, where the
      list comes from a Python set — any of these leaders (exactly one when the row hits one group) -/
  | leaders (l : List P)
deriving DecidableEq, Repr

/-- one PSM row of `update_fragpipe_psm_file` (update_fragpipe_results.py:224-268) -/
def psmRow (pg : PG P) (row : List P) : Except Err (RowAns P) :=
  match getGroups pg row true with
  | .error e => .error e
  | .ok gs =>
    if isMissingGroups gs then .ok .dropped
    else if isSharedGroups gs then .ok .dropped
    else match gs.head? with          -- `row_protein_groups[0][0]`
      | none => .error .indexError
      | some x => match x.2.head? with
        | none => .error .indexError
        | some a => .ok (if a ∈ row then .written a else .dropped)

/-- one row of the quantification callers / of `collect_peptide_scores_per_protein`
    (quant/maxquant.py:77-121, quant/fragpipe.py:67-98,159-213, quant/sage.py:71-108,178-241,
    scoring_strategy.py:200-224) with `discard_shared_peptides = True` -/
def quantRow (pg : PG P) (row : List P) : Except Err (RowAns P) :=
  match getIdxs pg row true with
  | .error e => .error e
  | .ok is =>
    if isMissingIdxs is then .ok .dropped
    else if isSharedIdxs is then .ok .dropped
    else match is.head? with          -- `for protein_group_idx in protein_group_idxs` over the one element
      | some (some i) => .ok (.attached i)
      | _ => .ok .dropped

/-- one result row of `FragpipeProteinAnnotationsColumns.append_columns`
    (columns/fragpipe_protein_annotations.py:53-57) -/
def annotRow (pg : PG P) (row : List P) : Except Err (RowAns P) :=
  match getGroups pg row true with
  | .error e => .error e
  | .ok gs =>
    if gs.isEmpty then .error .indexError
    else .ok (.leaders (gs.filterMap (fun x => x.2.head?)))

def rowAnswer : Caller → PG P → List P → Except Err (RowAns P)
  | .psmUpdate => psmRow
  | .annotate => annotRow
  | _ => quantRow

/-- the rows are processed in file order; the first lookup that raises ends the call -/
def mapRows {α β : Type} (f : α → Except Err β) : List α → Except Err (List β)
  | [] => .ok []
  | r :: rs =>
    match f r with
    | .error e => .error e
    | .ok a =>
      match mapRows f rs with
      | .error e => .error e
      | .ok l => .ok (a :: l)

/-- what a lookup caller does with the rows of its file, given the collection it is handed: a function of
    that collection and the rows — the model has no other state -/
def callerAnswer (c : Caller) (pg : PG P) (rows : List (List P)) : Except Err (List (RowAns P)) :=
  mapRows (rowAnswer c pg) rows

inductive Op (P : Type) where
  | append (g : List P) | extend (gs : List (List P)) | createIndex
  | merge (sup p : P) | removeEmpty | addUnseen (other : List (List P))
  /-- `grouping.RescuedGrouping.update_protein_groups(protein_groups, infos)` with
      `obsolete_protein_groups = ProteinGroups(obs)`: the caller grows the collection, which it must
      do through `extend` (grouping.py:220) -/
  | updateRescued (obs : List (List P))
  /-- `graphs.ConnectedProteinGraphs.get_connected_proteins(protein_groups)` over the given
      components -/
  | mergeComponents (comps : List (List P))
  | getGroup (p : P) (check : Bool) | getIdx (p : P) (check : Bool)
  | getIdxs (ps : List P) (check : Bool) | getGroups (ps : List P) (check : Bool)
  | getLeading (ps : List P)
  | missing (ps : List P) | shared (ps : List P)
  | missingGroups (ps : List P) | sharedGroups (ps : List P)
  | size | allProteins
  /-- a call of one of the package's readers with this collection as argument: no change of the
      collection; a reader that uses the index raises the invalid-index error while the flag is down -/
  | read (r : Reader)
  /-- a call of one of the package's lookup callers with this collection and these external rows (the
      protein list of each row): no change of the collection; the answer is `callerAnswer` -/
  | rows (c : Caller) (rows : List (List P))
deriving Repr

inductive Out (P : Type) where
  | unit
  | err (e : Err)
  | group (g : List P)
  | idx (i : Nat)
  | idxs (l : List (Option Nat))
  | groups (l : List (Nat × List P))
  | prots (l : List P)
  | bool (b : Bool)
  | nat (n : Nat)
  | obsolete (l : List (Nat × List P))
  | rows (l : List (RowAns P))
deriving Repr

def Op.isMutator : Op P → Bool
  | .append _ | .extend _ | .createIndex | .merge _ _ | .removeEmpty | .addUnseen _
  | .updateRescued _ | .mergeComponents _ => true
  | _ => false

def Op.isRead : Op P → Bool
  | .read _ => true
  | _ => false

def outOf {α : Type} (f : α → Out P) : Except Err α → Out P
  | .error e => .err e
  | .ok a => f a

/-- one method call: new state and what the caller sees -/
def step (pg : PG P) : Op P → PG P × Out P
  | .append g     => ({ pg with groups := pg.groups ++ [g], valid := false }, .unit)
  | .extend gs    => ({ pg with groups := pg.groups ++ gs, valid := false }, .unit)
  | .createIndex  => ({ pg with index := buildIndex pg.groups, valid := true }, .unit)
  | .merge sup p  =>
    match mergeGroups pg sup p with
    | .ok pg' => (pg', .unit)
    | .error e => (pg, .err e)
  | .removeEmpty  => (removeEmpty pg, .unit)
  | .addUnseen other => let r := addUnseen pg other; (r.1, .obsolete r.2)
  | .updateRescued obs => ({ pg with groups := pg.groups ++ obs, valid := false }, .unit)  -- = the `extend` step
  | .mergeComponents cs =>
    match mergeComponents pg cs with
    | (pg', none) => (pg', .unit)
    | (pg', some e) => (pg', .err e)
  | .getGroup p c => (pg, outOf .group (getGroup pg p c))
  | .getIdx p c   => (pg, outOf .idx (getIdx pg p c))
  | .getIdxs ps c => (pg, outOf .idxs (getIdxs pg ps c))
  | .getGroups ps c => (pg, outOf .groups (getGroups pg ps c))
  | .getLeading ps => (pg, outOf .prots (getLeading pg ps))
  | .missing ps   => (pg, outOf (fun is => .bool (isMissingIdxs is)) (getIdxs pg ps true))
  | .shared ps    => (pg, outOf (fun is => .bool (isSharedIdxs is)) (getIdxs pg ps true))
  | .missingGroups ps => (pg, outOf (fun gs => .bool (isMissingGroups gs)) (getGroups pg ps true))
  | .sharedGroups ps  => (pg, outOf (fun gs => .bool (isSharedGroups gs)) (getGroups pg ps true))
  | .size         => (pg, .nat pg.groups.length)
  | .allProteins  => (pg, .prots (allProteins pg))
  | .read r       => (pg, if r.needsIndex && !pg.valid then .err .invalidIndex else .unit)
  | .rows c rows  => (pg, outOf .rows (callerAnswer c pg rows))

/-- a whole history: final state (outputs are produced by `trace`) -/
def run (pg : PG P) (ops : List (Op P)) : PG P := ops.foldl (fun s op => (step s op).1) pg

/-- a whole history with everything the caller sees after each call -/
def trace (pg : PG P) : List (Op P) → List (PG P × Out P)
  | [] => []
  | op :: ops => let r := step pg op; r :: trace r.1 ops

/-- A process with SEVERAL live collections (`states`, one per `ProteinGroups` object): the call `op` is made
    on collection `k` — the step of that collection alone; `none` when there is no such collection. -/
def stepAt (states : List (PG P)) (k : Nat) (op : Op P) : Option (List (PG P) × Out P) :=
  match states[k]? with
  | none => none
  | some pg => let r := step pg op; some (states.set k r.1, r.2)

/-- the dict view of the index: one entry per key with the value a lookup returns -/
def indexItems (pg : PG P) : List (P × Nat) :=
  (firsts (pg.index.map (·.1))).filterMap (fun p => (pg.index.lookup p).map (fun i => (p, i)))

end PgFdr.C20
