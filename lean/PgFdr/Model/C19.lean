/-
Model of FASTA header parsing and protein annotation (picked_group_fdr/protein_annotation.py,
columns/protein_annotations.py, the record loop of digest.read_fasta_maxquant).

A header is treated as the list of its space-separated words (`str.split(" ")`: empty words are
kept).  The Python functions search the *characters* for `" OS="`, `" GN="`, `" PE="`; a match
is exactly a word at position ≥ 1 that starts with the key, so the `parse_*` functions are
written on the word list: "the first word after the identifier that starts with the key".
The CHARACTER-level functions `parse*Char` at the end of this file mirror the Python expressions
literally (`str.split(" OS=")`, `in`, `[1]`, `" ".join`); the driver op "header" runs those, and
`Proofs/C19Char.lean` proves that the two readings agree on every string.

  parse_until_first_space   word 0
  parse_uniprot_id          field 1 of word 0 split at '|' if it contains '|', else word 0
  parse_entry_name          field 2 of word 0 split at '|' if it has ≥ 2 bars, else word 0
  parse_protein_name_func   words 1.. before the first OS= word
  parse_organism            rest of the first OS= word and the words after it, up to the next
                            OS= word and cut at the first GN= word; None without an OS= word
  parse_gene_name_func      rest of the first GN= word; None without one
  parse_protein_existence   int(rest of the first PE= word) — Python's int() of a str: `parseInt`; None without one

Executable, Mathlib-free.  Strings are `List Char` inside the model.
-/
import PgFdr.Model.Basic

namespace PgFdr.C19

abbrev Tok := List Char

/-! ### Python string helpers -/

/-- Python `s.split(c)` for a one-character separator (always at least one field) -/
def splitOn (c : Char) : List Char → List (List Char)
  | [] => [[]]
  | x :: r =>
    if x = c then [] :: splitOn c r
    else match splitOn c r with
      | [] => [[x]]          -- unreachable: `splitOn` never returns `[]`
      | f :: fs => (x :: f) :: fs

/-- Python `sep.join(l)` for a one-character separator -/
def joinOn (c : Char) : List (List Char) → List Char
  | [] => []
  | [t] => t
  | t :: r => t ++ c :: joinOn c r

def words (s : List Char) : List Tok := splitOn ' ' s
def unwords (ts : List Tok) : List Char := joinOn ' ' ts

/-- Python `str.isspace()` of one character — the white space `str.rstrip()` / `str.strip()` without argument
    remove (CPython 3.12, Unicode 15.0: bidirectional class WS, B or S, or category Zs).  Exactly 29 code points:
    U+0009–U+000D (TAB, LF, VT, FF, CR), U+001C–U+001F (FS, GS, RS, US), U+0020, U+0085 (NEL), U+00A0 (NBSP),
    U+1680, U+2000–U+200A, U+2028, U+2029, U+202F, U+205F, U+3000.  Compared with the running interpreter over
    every code point by the correspondence (case kind `charclass`). -/
def isSpace (c : Char) : Bool :=
  let n := c.toNat
  (0x09 ≤ n && n ≤ 0x0D) || (0x1C ≤ n && n ≤ 0x20) || n == 0x85 || n == 0xA0 || n == 0x1680 ||
    (0x2000 ≤ n && n ≤ 0x200A) || n == 0x2028 || n == 0x2029 || n == 0x202F || n == 0x205F || n == 0x3000

/-- `line.rstrip()` (the only strip the FASTA reader and the header parsers perform) -/
def rstrip (s : List Char) : List Char := (s.reverse.dropWhile isSpace).reverse

/-! ### keys -/

def OS : List Char := "OS=".toList
def OX : List Char := "OX=".toList
def GN : List Char := "GN=".toList
def PE : List Char := "PE=".toList
def SV : List Char := "SV=".toList

def startsWith (pre : List Char) (t : Tok) : Bool := pre.isPrefixOf t

/-- words before the first word satisfying `p` -/
def before (p : Tok → Bool) : List Tok → List Tok
  | [] => []
  | t :: r => if p t then [] else t :: before p r

/-- the first word satisfying `p` and the words after it -/
def fromFirst (p : Tok → Bool) : List Tok → Option (Tok × List Tok)
  | [] => none
  | t :: r => if p t then some (t, r) else fromFirst p r

/-! ### the `parse_*` functions on the word list of a header -/

/-- `digest.parse_until_first_space` -/
def parseId (ts : List Tok) : Tok := ts.headD []

/-- `parse_uniprot_id` -/
def parseUniprotId (ts : List Tok) : Tok :=
  let pid := parseId ts
  if pid.contains '|' then (splitOn '|' pid).getD 1 [] else pid

/-- `parse_entry_name` -/
def parseEntryName (ts : List Tok) : Tok :=
  let pid := parseId ts
  if pid.count '|' ≥ 2 then (splitOn '|' pid).getD 2 [] else pid

/-- `parse_protein_name_func` (as words; the code joins them with single spaces) -/
def parseDescription (ts : List Tok) : List Tok := before (startsWith OS) ts.tail

/-- `parse_organism` (as words) -/
def parseOrganism (ts : List Tok) : Option (List Tok) :=
  match fromFirst (startsWith OS) ts.tail with
  | none => none
  | some (t, r) => some (t.drop OS.length :: before (startsWith GN) (before (startsWith OS) r))

/-- `parse_gene_name_func` -/
def parseGene (ts : List Tok) : Option Tok :=
  (fromFirst (startsWith GN) ts.tail).map (fun x => x.1.drop GN.length)

/-! ### Python `int(s)` of a `str` (base 10)

CPython (`PyLong_FromUnicodeObject`) first folds the string to ASCII — a character below U+007F stays, a non-ASCII
`str.isspace` character becomes a blank, a non-ASCII decimal digit (category Nd) becomes its ASCII digit, anything
else ends the literal with `?` — and then reads `white* [+-]? digit (_? digit)* white*` with C's `isspace`
(TAB, LF, VT, FF, CR, blank).  Hence the strings `int()` accepts are exactly:

  * optional white space from `isIntSpace` = `str.isspace` WITHOUT U+001C–U+001F (they are below U+007F, so they are
    not folded, and C's `isspace` does not know them) at both ends,
  * an optional sign `+` or `-` (ASCII only; directly before the first digit),
  * one or more decimal digits of ANY script (`digitValue`: the 680 characters of category Nd in Unicode 15.0, 68
    runs of ten, value = offset in the run; scripts may be mixed), with at most one underscore between two digits
    (none leading, trailing or doubled).

Everything else is `ValueError: invalid literal for int()` → `none`.  Leading zeros are allowed (`07` is 7); `-0` is 0;
the value may be negative.  (CPython also refuses literals of more than 4300 digits, with another message; no such
header is modelled or generated.) -/

/-- the white space `int()` skips around the literal -/
def isIntSpace (c : Char) : Bool := isSpace c && !(0x1C ≤ c.toNat && c.toNat ≤ 0x1F)

/-- code points of the digit ZERO of every decimal digit run (category Nd, Unicode 15.0): each is followed by its
    digits ONE … NINE.  Compared with `int(chr(cp))` of the running interpreter over every code point. -/
def digitZeros : List Nat :=
  [
   0x30, 0x660, 0x6F0, 0x7C0, 0x966, 0x9E6, 0xA66, 0xAE6, 0xB66, 0xBE6,
   0xC66, 0xCE6, 0xD66, 0xDE6, 0xE50, 0xED0, 0xF20, 0x1040, 0x1090, 0x17E0,
   0x1810, 0x1946, 0x19D0, 0x1A80, 0x1A90, 0x1B50, 0x1BB0, 0x1C40, 0x1C50, 0xA620,
   0xA8D0, 0xA900, 0xA9D0, 0xA9F0, 0xAA50, 0xABF0, 0xFF10, 0x104A0, 0x10D30, 0x11066,
   0x110F0, 0x11136, 0x111D0, 0x112F0, 0x11450, 0x114D0, 0x11650, 0x116C0, 0x11730, 0x118E0,
   0x11950, 0x11C50, 0x11D50, 0x11DA0, 0x11F50, 0x16A60, 0x16AC0, 0x16B50, 0x1D7CE, 0x1D7D8,
   0x1D7E2, 0x1D7EC, 0x1D7F6, 0x1E140, 0x1E2F0, 0x1E4F0, 0x1E950, 0x1FBF0
  ]

/-- `Py_UNICODE_TODECIMAL` -/
def digitValue (c : Char) : Option Nat :=
  (digitZeros.find? (fun z => z ≤ c.toNat && c.toNat < z + 10)).map (c.toNat - ·)

/-- the digits after the first one: `acc` = value so far, `pu` = the previous character was an underscore -/
def parseDigits : Nat → Bool → List Char → Option Nat
  | acc, pu, [] => if pu then none else some acc
  | acc, pu, c :: r =>
    if c = '_' then (if pu then none else parseDigits acc true r)
    else match digitValue c with
      | some d => parseDigits (acc * 10 + d) false r
      | none => none

/-- `digit (_? digit)*` -/
def parseNatLit : List Char → Option Nat
  | [] => none
  | c :: r =>
    match digitValue c with
    | some d => parseDigits d false r
    | none => none

/-- remove the characters satisfying `p` at both ends -/
def stripBoth (p : Char → Bool) (s : List Char) : List Char := ((s.dropWhile p).reverse.dropWhile p).reverse

/-- Python `int(s)` for a `str`; `none` = `ValueError` -/
def parseInt (s : List Char) : Option Int :=
  match stripBoth isIntSpace s with
  | '+' :: r => (parseNatLit r).map Int.ofNat
  | '-' :: r => (parseNatLit r).map (fun n => -(Int.ofNat n))
  | r => (parseNatLit r).map Int.ofNat

/-- `parse_protein_existence_level`: `none` = no `PE=` word; `some none` = `int()` fails -/
def parseExistence (ts : List Tok) : Option (Option Int) :=
  (fromFirst (startsWith PE) ts.tail).map (fun x => parseInt (x.1.drop PE.length))

/-! ### composing a UniProt-style header -/

/-- the fields a header `db|ACC|ENTRY desc… OS=org… OX=n [GN=g] PE=k SV=v` is composed of -/
structure Fields where
  db : Tok
  acc : Tok
  entry : Tok
  desc : List Tok
  /-- organism words; the first one carries the `OS=` key in the header -/
  org : List Tok
  ox : Tok
  gene : Option Tok
  /-- protein existence level (one digit) -/
  pe : Nat
  sv : Tok
deriving Repr, DecidableEq

def Fields.ident (f : Fields) : Tok := f.db ++ ('|' :: (f.acc ++ ('|' :: f.entry)))

/-- the header as its list of words -/
def compose (f : Fields) : List Tok :=
  [f.ident] ++ f.desc ++ ((f.org.head?.map (OS ++ ·)).toList ++ f.org.tail) ++ [OX ++ f.ox] ++
    (match f.gene with | some g => [GN ++ g] | none => []) ++ [PE ++ [Nat.digitChar f.pe]] ++ [SV ++ f.sv]

/-- the header line content (after the `>`) -/
def render (f : Fields) : List Char := unwords (compose f)

/-! ### annotations -/

/-- `ProteinAnnotation` (strings as `List Char`; `description` and `organism` joined by spaces) -/
structure Annotation where
  /-- result of the identifier rule (`None` for the gene rule on a header without `GN=`) -/
  id : Option (List Char)
  header : List Char
  uniprotId : List Char
  entryName : List Char
  geneName : Option (List Char)
  length : Nat
  organism : Option (List Char)
  description : List Char
  /-- a Python `int`: `int()` of the `PE=` field (negative for a field such as `-1`) -/
  existence : Option Int
deriving Repr, DecidableEq

/-- the identifier rules of `get_protein_annotations` -/
inductive IdRule where
  /-- `digest.parse_until_first_space` -/
  | full
  /-- `parse_uniprot_id` (`--fasta_use_uniprot_id`) -/
  | accession
  /-- `parse_gene_name_func` (gene level) -/
  | gene
deriving Repr, DecidableEq

def applyRule (rule : IdRule) (ts : List Tok) : Option (List Char) :=
  match rule with
  | .full => some (parseId ts)
  | .accession => some (parseUniprotId ts)
  | .gene => parseGene ts

inductive Err where
  /-- `int()` of the `PE=` field raised `ValueError` -/
  | badExistence
  /-- `has_gene_names` divided by zero records -/
  | noRecords
  /-- a sequence line after a bare `>` line that followed a record (`'str' … no attribute 'append'`) -/
  | sequenceAfterBareHeader
deriving Repr, DecidableEq

def Err.tag : Err → String
  | .badExistence => "bad_existence"
  | .noRecords => "no_records"
  | .sequenceAfterBareHeader => "sequence_after_bare_header"

/-- one `ProteinAnnotation(...)` of `read_fasta_proteins` -/
def annotate (rule : IdRule) (header : List Char) (length : Nat) : Except Err Annotation :=
  let ts := words header
  match parseExistence ts with
  | some none => .error .badExistence
  | ex =>
    .ok { id := applyRule rule ts, header := header, uniprotId := parseUniprotId ts,
          entryName := parseEntryName ts, geneName := parseGene ts, length := length,
          organism := (parseOrganism ts).map unwords, description := unwords (parseDescription ts),
          existence := ex.bind id }

/-! ### the record loop of `digest.read_fasta_maxquant` with `parse_id = parse_fasta_header` -/

/-- state of the loop: current header (`name`), the sequence lines read so far, and whether `seq`
    has already been joined into a `str` (after a record was yielded at a bare `>` line, which
    does not reset it: a sequence line arriving then makes the code die in `seq.append`) -/
structure RState where
  name : Option (List Char)
  seq : List (List Char)
  joined : Bool

def decoyPrefix : List Char := "REV__".toList

/-- records yielded when a header line (or the end) is reached: `(header, sequence length)`;
    target, then decoy (`REV__` + header, same length), according to the db mode -/
def emit (concat : Bool) (st : RState) : List (List Char × Nat) :=
  match st.name with
  | none => []
  | some n =>
    let len := (st.seq.map List.length).sum
    if concat then [(n, len), (decoyPrefix ++ n, len)] else [(n, len)]

/-- one line of the file (already without its newline) -/
def stepLine (concat : Bool) (st : RState) (raw : List Char) : Except Err (RState × List (List Char × Nat)) :=
  let line := rstrip raw
  match line with
  | '>' :: rest =>
    let out := emit concat st
    if rest.isEmpty then .ok ({ st with joined := st.name.isSome }, out)   -- a bare ">" yields but does not reset
    else .ok ({ name := some rest, seq := [], joined := false }, out)
  | _ =>
    if st.joined then .error .sequenceAfterBareHeader
    else .ok ({ st with seq := st.seq ++ [line] }, [])

def readLoop (concat : Bool) : RState → List (List Char) → Except Err (List (List Char × Nat))
  | st, [] => .ok (emit concat st)                -- the sentinel ">" appended by the code
  | st, l :: r =>
    match stepLine concat st l with
    | .error e => .error e
    | .ok (st', out) =>
      match readLoop concat st' r with
      | .error e => .error e
      | .ok rest => .ok (out ++ rest)

/-- `digest.read_fasta(file, db, parse_id = parse_fasta_header)` on the lines of a file -/
def readFasta (concat : Bool) (lines : List (List Char)) : Except Err (List (List Char × Nat)) :=
  readLoop concat { name := none, seq := [], joined := false } lines

/-- annotate the records yielded at one line, in order -/
def annotateAll (rule : IdRule) : List (List Char × Nat) → Except Err (List Annotation)
  | [] => .ok []
  | r :: rs =>
    match annotate rule r.1 r.2 with
    | .error e => .error e
    | .ok a =>
      match annotateAll rule rs with
      | .error e => .error e
      | .ok as => .ok (a :: as)

/-- `read_fasta_proteins`: the reader is a generator, so every record is annotated when it is
    yielded and the first failure in file order (reader or `int()`) is the one that surfaces -/
def readProteinsLoop (concat : Bool) (rule : IdRule) : RState → List (List Char) → Except Err (List Annotation)
  | st, [] => annotateAll rule (emit concat st)
  | st, l :: r =>
    match stepLine concat st l with
    | .error e => .error e
    | .ok (st', out) =>
      match annotateAll rule out with
      | .error e => .error e
      | .ok as =>
        match readProteinsLoop concat rule st' r with
        | .error e => .error e
        | .ok rest => .ok (as ++ rest)

def readProteins (concat : Bool) (rule : IdRule) (lines : List (List Char)) : Except Err (List Annotation) :=
  readProteinsLoop concat rule { name := none, seq := [], joined := false } lines

/-! ### dictionaries (association lists in insertion order) -/

abbrev Dict := List (Option (List Char) × Annotation)

def Dict.get? (d : Dict) (k : Option (List Char)) : Option Annotation :=
  (d.find? (fun e => e.1 = k)).map (·.2)

def Dict.contains (d : Dict) (k : Option (List Char)) : Bool := d.any (fun e => e.1 = k)

/-- `get_protein_annotations_single`: insert only if the identifier is new (first record wins) -/
def insertNew (d : Dict) (a : Annotation) : Dict :=
  if d.contains a.id then d else d ++ [(a.id, a)]

def single (recs : List Annotation) : Dict := recs.foldl insertNew []

/-- Python `{**d, **e}`: keys of `d` keep their position and take `e`'s value; new keys follow -/
def merge (d e : Dict) : Dict :=
  d.map (fun x => match e.get? x.1 with | some a => (x.1, a) | none => x) ++
    e.filter (fun x => !d.contains x.1)

/-- `get_protein_annotations_multiple` -/
def multipleFrom (concat : Bool) (rule : IdRule) : Dict → List (List (List Char)) → Except Err Dict
  | d, [] => .ok d
  | d, f :: fs =>
    match readProteins concat rule f with
    | .error e => .error e
    | .ok recs => multipleFrom concat rule (merge d (single recs)) fs

def multiple (concat : Bool) (rule : IdRule) (files : List (List (List Char))) : Except Err Dict :=
  multipleFrom concat rule [] files

/-- number of entries carrying a non-empty gene name -/
def geneCount (d : Dict) : Nat :=
  (d.filter (fun e => match e.2.geneName with | some g => !g.isEmpty | none => false)).length

/-- `has_gene_names(annotations, 0.5)`: more than half of the entries carry a non-empty gene name -/
def hasGeneNames (d : Dict) : Except Err Bool :=
  if d.isEmpty then .error .noRecords
  else .ok (decide (2 * geneCount d > d.length))

/-- `get_protein_annotations(fasta, fasta_contains_decoys, use_gene_level, fasta_use_uniprot_id)`;
    `files = none` is `fasta is None`.  Returns the dictionary and `use_pseudo_genes`. -/
def getAnnotations (files : Option (List (List (List Char)))) (containsDecoys geneLevel useUniprot : Bool) :
    Except Err (Dict × Bool) :=
  match files with
  | none => .ok ([], false)
  | some fs =>
    let concat := !containsDecoys
    let rule := if useUniprot then IdRule.accession else IdRule.full
    match multiple concat rule fs with
    | .error e => .error e
    | .ok d =>
      if geneLevel then
        match hasGeneNames d with
        | .error e => .error e
        | .ok true =>
          match multiple concat .gene fs with
          | .error e => .error e
          | .ok d' => .ok (d', false)
        | .ok false => .ok (d, true)
      else .ok (d, false)

/-! ### the three annotation columns -/

/-- `if x not in l: l.append(x)` over a list, left to right -/
def distinctInto {α} [DecidableEq α] (acc : List α) : List α → List α
  | [] => acc
  | x :: r => if x ∈ acc then distinctInto acc r else distinctInto (acc ++ [x]) r

def distinct {α} [DecidableEq α] (l : List α) : List α := distinctInto [] l

/-- `ProteinAnnotationsColumns.append_columns` for one row: the row's `proteinIds` split at `;`,
    looked up in the dictionary (absent ones skipped); identifiers, gene names (records without
    one skipped) and headers, each distinct value once, in row order, joined by `;` -/
def annotationColumns (d : Dict) (proteinIds : List Char) : List Char × List Char × List Char :=
  let found := (splitOn ';' proteinIds).filterMap (fun p => d.get? (some p))
  let names := distinct (found.filterMap (·.id))
  let genes := distinct (found.filterMap (·.geneName))
  let headers := distinct (found.map (·.header))
  (joinOn ';' names, joinOn ';' genes, joinOn ';' headers)

/-! ### CHARACTER-level model of the header parsers

The functions below mirror the Python expressions of `protein_annotation.py` literally, on the
characters of the header: `str.split(sep)` with a (multi-character) separator, `sep in s`,
`[0]` / `[1]` / `[2]`, `[1:]`, `" ".join(...)`, `str.count`.  They do not mention words.
`Proofs/C19Char.lean` proves that they equal the word-level functions above on EVERY string
(`annotateChar_eq_annotate`), so the word-level theorems carry over. -/

/-- prepend a character to the first field (the field being read) -/
def consHead (c : Char) : List (List Char) → List (List Char)
  | [] => [[c]]            -- unreachable: a split is never empty
  | f :: fs => (c :: f) :: fs

/-- Python `s.split(sep)` for a non-empty separator: matches are found left to right and do not
    overlap; always at least one field.  `skip` counts the characters of a match still to be
    consumed (structural recursion, as `PgFdr.replaceAux`). -/
def splitStrAux (sep : List Char) : Nat → List Char → List (List Char)
  | _, [] => [[]]
  | skip + 1, _ :: t => splitStrAux sep skip t
  | 0, c :: t =>
    if sep ≠ [] ∧ sep.isPrefixOf (c :: t) then [] :: splitStrAux sep (sep.length - 1) t
    else consHead c (splitStrAux sep 0 t)

def splitStr (sep : String) (s : List Char) : List (List Char) := splitStrAux sep.toList 0 s

/-- Python `pat in s` -/
def pyIn (pat : String) (s : List Char) : Bool := containsSub pat.toList s

/-- Python `l[i]` where the index is known to exist (every use below is `[0]` of a split, or
    `[1]` / `[2]` behind an `in` / `count` guard) -/
def idx (l : List (List Char)) (i : Nat) : List Char := l.getD i []

/-- `digest.parse_until_first_space`: `fasta_id.split(" ")[0]` -/
def parseIdChar (h : List Char) : List Char := idx (splitStr " " h) 0

/-- `parse_uniprot_id`: `protein_id.split("|")[1] if "|" in protein_id else protein_id` -/
def parseUniprotIdChar (h : List Char) : List Char :=
  let pid := parseIdChar h
  if pyIn "|" pid then idx (splitStr "|" pid) 1 else pid

/-- `parse_entry_name`: `protein_id.split("|")[2] if "|" in protein_id and protein_id.count("|") >= 2
    else protein_id` -/
def parseEntryNameChar (h : List Char) : List Char :=
  let pid := parseIdChar h
  if pyIn "|" pid && decide (pid.count '|' ≥ 2) then idx (splitStr "|" pid) 2 else pid

/-- `parse_protein_name_func`: `" ".join(fasta_header.split(" OS=")[0].split(" ")[1:])` -/
def parseDescriptionChar (h : List Char) : List Char :=
  joinOn ' ' ((splitStr " " (idx (splitStr " OS=" h) 0)).drop 1)

/-- `parse_organism`: `fasta_header.split(" OS=")[1].split(" GN=")[0] if " OS=" in fasta_header else None` -/
def parseOrganismChar (h : List Char) : Option (List Char) :=
  if pyIn " OS=" h then some (idx (splitStr " GN=" (idx (splitStr " OS=" h) 1)) 0) else none

/-- `parse_protein_existence_level`: `int(fasta_header.split(" PE=")[1].split(" ")[0]) if " PE=" in
    fasta_header else None` (`some none` = `int()` raises) -/
def parseExistenceChar (h : List Char) : Option (Option Int) :=
  if pyIn " PE=" h then some (parseInt (idx (splitStr " " (idx (splitStr " PE=" h) 1)) 0)) else none

/-- `parse_gene_name_func`: `fasta_header.split(" GN=")[1].split(" ")[0] if " GN=" in fasta_header else None` -/
def parseGeneChar (h : List Char) : Option (List Char) :=
  if pyIn " GN=" h then some (idx (splitStr " " (idx (splitStr " GN=" h) 1)) 0) else none

def applyRuleChar (rule : IdRule) (h : List Char) : Option (List Char) :=
  match rule with
  | .full => some (parseIdChar h)
  | .accession => some (parseUniprotIdChar h)
  | .gene => parseGeneChar h

/-- one `ProteinAnnotation(...)` of `read_fasta_proteins`, computed by the character-level
    functions (the driver op `header` runs this one) -/
def annotateChar (rule : IdRule) (header : List Char) (length : Nat) : Except Err Annotation :=
  match parseExistenceChar header with
  | some none => .error .badExistence
  | ex =>
    .ok { id := applyRuleChar rule header, header := header, uniprotId := parseUniprotIdChar header,
          entryName := parseEntryNameChar header, geneName := parseGeneChar header, length := length,
          organism := parseOrganismChar header, description := parseDescriptionChar header,
          existence := ex.bind id }

end PgFdr.C19
