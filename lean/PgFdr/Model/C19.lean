/-
Model of FASTA header parsing and protein annotation (picked_group_fdr/protein_annotation.py,
columns/protein_annotations.py, the record loop of digest.read_fasta_maxquant).

A header is treated as the list of its space-separated words (`str.split(" ")`: empty words are
kept).  The Python functions search the *characters* for `" OS="`, `" GN="`, `" PE="`; a match
is exactly a word at position ≥ 1 that starts with the key, so the `parse_*` functions are
written on the word list: "the first word after the identifier that starts with the key".
That the two readings agree on real strings is validated by the correspondence of
`harness/props/C19.py` (every generated header goes through both), not proved.

  parse_until_first_space   word 0
  parse_uniprot_id          field 1 of word 0 split at '|' if it contains '|', else word 0
  parse_entry_name          field 2 of word 0 split at '|' if it has ≥ 2 bars, else word 0
  parse_protein_name_func   words 1.. before the first OS= word
  parse_organism            rest of the first OS= word and the words after it, up to the next
                            OS= word and cut at the first GN= word; None without an OS= word
  parse_gene_name_func      rest of the first GN= word; None without one
  parse_protein_existence   int(rest of the first PE= word); None without one

Executable, Mathlib-free.  Strings are `List Char` inside the model.
-/
import PgFdr.Model.Basic

namespace PgFdr.C19

abbrev Tok := List Char

/-! ### Python string helpers -/

/-- Python `s.split(c)` for a one-character separator (always at least one field) -/
def splitOn (c : Char) : List Char → List (List Char)
  | [] => [[]]
  | x :: r =>
    if x = c then [] :: splitOn c r
    else match splitOn c r with
      | [] => [[x]]          -- unreachable: `splitOn` never returns `[]`
      | f :: fs => (x :: f) :: fs

/-- Python `sep.join(l)` for a one-character separator -/
def joinOn (c : Char) : List (List Char) → List Char
  | [] => []
  | [t] => t
  | t :: r => t ++ c :: joinOn c r

def words (s : List Char) : List Tok := splitOn ' ' s
def unwords (ts : List Tok) : List Char := joinOn ' ' ts

/-- ASCII white space stripped by `line.rstrip()` -/
def isSpace (c : Char) : Bool := c = ' ' || c = '\t' || c = '\n' || c = '\r' || c = '\x0b' || c = '\x0c'

def rstrip (s : List Char) : List Char := (s.reverse.dropWhile isSpace).reverse

/-! ### keys -/

def OS : List Char := "OS=".toList
def OX : List Char := "OX=".toList
def GN : List Char := "GN=".toList
def PE : List Char := "PE=".toList
def SV : List Char := "SV=".toList

def startsWith (pre : List Char) (t : Tok) : Bool := pre.isPrefixOf t

/-- words before the first word satisfying `p` -/
def before (p : Tok → Bool) : List Tok → List Tok
  | [] => []
  | t :: r => if p t then [] else t :: before p r

/-- the first word satisfying `p` and the words after it -/
def fromFirst (p : Tok → Bool) : List Tok → Option (Tok × List Tok)
  | [] => none
  | t :: r => if p t then some (t, r) else fromFirst p r

/-! ### the `parse_*` functions on the word list of a header -/

/-- `digest.parse_until_first_space` -/
def parseId (ts : List Tok) : Tok := ts.headD []

/-- `parse_uniprot_id` -/
def parseUniprotId (ts : List Tok) : Tok :=
  let pid := parseId ts
  if pid.contains '|' then (splitOn '|' pid).getD 1 [] else pid

/-- `parse_entry_name` -/
def parseEntryName (ts : List Tok) : Tok :=
  let pid := parseId ts
  if pid.count '|' ≥ 2 then (splitOn '|' pid).getD 2 [] else pid

/-- `parse_protein_name_func` (as words; the code joins them with single spaces) -/
def parseDescription (ts : List Tok) : List Tok := before (startsWith OS) ts.tail

/-- `parse_organism` (as words) -/
def parseOrganism (ts : List Tok) : Option (List Tok) :=
  match fromFirst (startsWith OS) ts.tail with
  | none => none
  | some (t, r) => some (t.drop OS.length :: before (startsWith GN) (before (startsWith OS) r))

/-- `parse_gene_name_func` -/
def parseGene (ts : List Tok) : Option Tok :=
  (fromFirst (startsWith GN) ts.tail).map (fun x => x.1.drop GN.length)

/-- decimal value of a non-empty string of ASCII digits -/
def parseNat (s : List Char) : Option Nat :=
  if s.isEmpty then none
  else s.foldl (fun acc c => acc.bind (fun n => if c.isDigit then some (n * 10 + (c.toNat - '0'.toNat)) else none)) (some 0)

/-- `parse_protein_existence_level`: `none` = no `PE=` word; `some none` = `int()` fails -/
def parseExistence (ts : List Tok) : Option (Option Nat) :=
  (fromFirst (startsWith PE) ts.tail).map (fun x => parseNat (x.1.drop PE.length))

/-! ### composing a UniProt-style header -/

/-- the fields a header `db|ACC|ENTRY desc… OS=org… OX=n [GN=g] PE=k SV=v` is composed of -/
structure Fields where
  db : Tok
  acc : Tok
  entry : Tok
  desc : List Tok
  /-- organism words; the first one carries the `OS=` key in the header -/
  org : List Tok
  ox : Tok
  gene : Option Tok
  /-- protein existence level (one digit) -/
  pe : Nat
  sv : Tok
deriving Repr, DecidableEq

def Fields.ident (f : Fields) : Tok := f.db ++ ('|' :: (f.acc ++ ('|' :: f.entry)))

/-- the header as its list of words -/
def compose (f : Fields) : List Tok :=
  [f.ident] ++ f.desc ++ ((f.org.head?.map (OS ++ ·)).toList ++ f.org.tail) ++ [OX ++ f.ox] ++
    (match f.gene with | some g => [GN ++ g] | none => []) ++ [PE ++ [Nat.digitChar f.pe]] ++ [SV ++ f.sv]

/-- the header line content (after the `>`) -/
def render (f : Fields) : List Char := unwords (compose f)

/-! ### annotations -/

/-- `ProteinAnnotation` (strings as `List Char`; `description` and `organism` joined by spaces) -/
structure Annotation where
  /-- result of the identifier rule (`None` for the gene rule on a header without `GN=`) -/
  id : Option (List Char)
  header : List Char
  uniprotId : List Char
  entryName : List Char
  geneName : Option (List Char)
  length : Nat
  organism : Option (List Char)
  description : List Char
  existence : Option Nat
deriving Repr, DecidableEq

/-- the identifier rules of `get_protein_annotations` -/
inductive IdRule where
  /-- `digest.parse_until_first_space` -/
  | full
  /-- `parse_uniprot_id` (`--fasta_use_uniprot_id`) -/
  | accession
  /-- `parse_gene_name_func` (gene level) -/
  | gene
deriving Repr, DecidableEq

def applyRule (rule : IdRule) (ts : List Tok) : Option (List Char) :=
  match rule with
  | .full => some (parseId ts)
  | .accession => some (parseUniprotId ts)
  | .gene => parseGene ts

inductive Err where
  /-- `int()` of the `PE=` field raised `ValueError` -/
  | badExistence
  /-- `has_gene_names` divided by zero records -/
  | noRecords
  /-- a sequence line after a bare `>` line that followed a record (`'str' … no attribute 'append'`) -/
  | sequenceAfterBareHeader
deriving Repr, DecidableEq

def Err.tag : Err → String
  | .badExistence => "bad_existence"
  | .noRecords => "no_records"
  | .sequenceAfterBareHeader => "sequence_after_bare_header"

/-- one `ProteinAnnotation(...)` of `read_fasta_proteins` -/
def annotate (rule : IdRule) (header : List Char) (length : Nat) : Except Err Annotation :=
  let ts := words header
  match parseExistence ts with
  | some none => .error .badExistence
  | ex =>
    .ok { id := applyRule rule ts, header := header, uniprotId := parseUniprotId ts,
          entryName := parseEntryName ts, geneName := parseGene ts, length := length,
          organism := (parseOrganism ts).map unwords, description := unwords (parseDescription ts),
          existence := ex.bind id }

/-! ### the record loop of `digest.read_fasta_maxquant` with `parse_id = parse_fasta_header` -/

/-- state of the loop: current header (`name`), the sequence lines read so far, and whether `seq`
    has already been joined into a `str` (after a record was yielded at a bare `>` line, which
    does not reset it: a sequence line arriving then makes the code die in `seq.append`) -/
structure RState where
  name : Option (List Char)
  seq : List (List Char)
  joined : Bool

def decoyPrefix : List Char := "REV__".toList

/-- records yielded when a header line (or the end) is reached: `(header, sequence length)`;
    target, then decoy (`REV__` + header, same length), according to the db mode -/
def emit (concat : Bool) (st : RState) : List (List Char × Nat) :=
  match st.name with
  | none => []
  | some n =>
    let len := (st.seq.map List.length).sum
    if concat then [(n, len), (decoyPrefix ++ n, len)] else [(n, len)]

/-- one line of the file (already without its newline) -/
def stepLine (concat : Bool) (st : RState) (raw : List Char) : Except Err (RState × List (List Char × Nat)) :=
  let line := rstrip raw
  match line with
  | '>' :: rest =>
    let out := emit concat st
    if rest.isEmpty then .ok ({ st with joined := st.name.isSome }, out)   -- a bare ">" yields but does not reset
    else .ok ({ name := some rest, seq := [], joined := false }, out)
  | _ =>
    if st.joined then .error .sequenceAfterBareHeader
    else .ok ({ st with seq := st.seq ++ [line] }, [])

def readLoop (concat : Bool) : RState → List (List Char) → Except Err (List (List Char × Nat))
  | st, [] => .ok (emit concat st)                -- the sentinel ">" appended by the code
  | st, l :: r =>
    match stepLine concat st l with
    | .error e => .error e
    | .ok (st', out) =>
      match readLoop concat st' r with
      | .error e => .error e
      | .ok rest => .ok (out ++ rest)

/-- `digest.read_fasta(file, db, parse_id = parse_fasta_header)` on the lines of a file -/
def readFasta (concat : Bool) (lines : List (List Char)) : Except Err (List (List Char × Nat)) :=
  readLoop concat { name := none, seq := [], joined := false } lines

/-- annotate the records yielded at one line, in order -/
def annotateAll (rule : IdRule) : List (List Char × Nat) → Except Err (List Annotation)
  | [] => .ok []
  | r :: rs =>
    match annotate rule r.1 r.2 with
    | .error e => .error e
    | .ok a =>
      match annotateAll rule rs with
      | .error e => .error e
      | .ok as => .ok (a :: as)

/-- `read_fasta_proteins`: the reader is a generator, so every record is annotated when it is
    yielded and the first failure in file order (reader or `int()`) is the one that surfaces -/
def readProteinsLoop (concat : Bool) (rule : IdRule) : RState → List (List Char) → Except Err (List Annotation)
  | st, [] => annotateAll rule (emit concat st)
  | st, l :: r =>
    match stepLine concat st l with
    | .error e => .error e
    | .ok (st', out) =>
      match annotateAll rule out with
      | .error e => .error e
      | .ok as =>
        match readProteinsLoop concat rule st' r with
        | .error e => .error e
        | .ok rest => .ok (as ++ rest)

def readProteins (concat : Bool) (rule : IdRule) (lines : List (List Char)) : Except Err (List Annotation) :=
  readProteinsLoop concat rule { name := none, seq := [], joined := false } lines

/-! ### dictionaries (association lists in insertion order) -/

abbrev Dict := List (Option (List Char) × Annotation)

def Dict.get? (d : Dict) (k : Option (List Char)) : Option Annotation :=
  (d.find? (fun e => e.1 = k)).map (·.2)

def Dict.contains (d : Dict) (k : Option (List Char)) : Bool := d.any (fun e => e.1 = k)

/-- `get_protein_annotations_single`: insert only if the identifier is new (first record wins) -/
def insertNew (d : Dict) (a : Annotation) : Dict :=
  if d.contains a.id then d else d ++ [(a.id, a)]

def single (recs : List Annotation) : Dict := recs.foldl insertNew []

/-- Python `{**d, **e}`: keys of `d` keep their position and take `e`'s value; new keys follow -/
def merge (d e : Dict) : Dict :=
  d.map (fun x => match e.get? x.1 with | some a => (x.1, a) | none => x) ++
    e.filter (fun x => !d.contains x.1)

/-- `get_protein_annotations_multiple` -/
def multipleFrom (concat : Bool) (rule : IdRule) : Dict → List (List (List Char)) → Except Err Dict
  | d, [] => .ok d
  | d, f :: fs =>
    match readProteins concat rule f with
    | .error e => .error e
    | .ok recs => multipleFrom concat rule (merge d (single recs)) fs

def multiple (concat : Bool) (rule : IdRule) (files : List (List (List Char))) : Except Err Dict :=
  multipleFrom concat rule [] files

/-- number of entries carrying a non-empty gene name -/
def geneCount (d : Dict) : Nat :=
  (d.filter (fun e => match e.2.geneName with | some g => !g.isEmpty | none => false)).length

/-- `has_gene_names(annotations, 0.5)`: more than half of the entries carry a non-empty gene name -/
def hasGeneNames (d : Dict) : Except Err Bool :=
  if d.isEmpty then .error .noRecords
  else .ok (decide (2 * geneCount d > d.length))

/-- `get_protein_annotations(fasta, fasta_contains_decoys, use_gene_level, fasta_use_uniprot_id)`;
    `files = none` is `fasta is None`.  Returns the dictionary and `use_pseudo_genes`. -/
def getAnnotations (files : Option (List (List (List Char)))) (containsDecoys geneLevel useUniprot : Bool) :
    Except Err (Dict × Bool) :=
  match files with
  | none => .ok ([], false)
  | some fs =>
    let concat := !containsDecoys
    let rule := if useUniprot then IdRule.accession else IdRule.full
    match multiple concat rule fs with
    | .error e => .error e
    | .ok d =>
      if geneLevel then
        match hasGeneNames d with
        | .error e => .error e
        | .ok true =>
          match multiple concat .gene fs with
          | .error e => .error e
          | .ok d' => .ok (d', false)
        | .ok false => .ok (d, true)
      else .ok (d, false)

/-! ### the three annotation columns -/

/-- `if x not in l: l.append(x)` over a list, left to right -/
def distinctInto {α} [DecidableEq α] (acc : List α) : List α → List α
  | [] => acc
  | x :: r => if x ∈ acc then distinctInto acc r else distinctInto (acc ++ [x]) r

def distinct {α} [DecidableEq α] (l : List α) : List α := distinctInto [] l

/-- `ProteinAnnotationsColumns.append_columns` for one row: the row's `proteinIds` split at `;`,
    looked up in the dictionary (absent ones skipped); identifiers, gene names (records without
    one skipped) and headers, each distinct value once, in row order, joined by `;` -/
def annotationColumns (d : Dict) (proteinIds : List Char) : List Char × List Char × List Char :=
  let found := (splitOn ';' proteinIds).filterMap (fun p => d.get? (some p))
  let names := distinct (found.filterMap (·.id))
  let genes := distinct (found.filterMap (·.geneName))
  let headers := distinct (found.map (·.header))
  (joinOn ';' names, joinOn ';' genes, joinOn ';' headers)

end PgFdr.C19
