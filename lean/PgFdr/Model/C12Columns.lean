/-
C12, two further parts of the quantification sequence (same namespace `PgFdr.C12`):

1. REMAPPING.  `parsers/psm.py:get_peptide_to_protein_mapper` + `parse_evidence_file_multiple`: when the scoring
   method remaps peptides to proteins (always for `python -m picked_group_fdr.quantification --fasta / --peptide_protein_map`,
   and for the default methods of `picked_group_fdr --do_quant`) the protein list of an evidence row is NOT the
   `Leading proteins` cell but `digest.get_proteins(map_of_the_file, helpers.remove_modifications(modified_sequence))`.
   The stripping is `C10.removeMods` (the model of `helpers.remove_modifications` that the C10 check ties to the code;
   imported, not re-done), the lookup `C10.digestLookup`, their combination `C10.sourceProteins`.
   `evidenceRows remap maps files` is the row stream `add_precursor_quants` iterates over; `quantifyFiles` /
   `quantifyFilesDesign` run `quantify` / `quantifyDesign` on it.

2. THE COLUMN PIPELINE.  `writers/base.py:append_quant_columns` hands ONE per-group precursor list
   (`pgr.precursorQuants` after `_retain_only_identified_precursors`) to every column generator of
   `writer.get_columns()` in turn; each generator appends its cells to the row.  The generators are identified by
   `C13.Gen` (the C13 model of the header side of the same classes, `C13.Gen.valid` = `is_valid`).  `c12Cells` gives
   the cells of the five generators the property speaks about (unique peptide counts, identification type, summed
   intensity + iBAQ, reporter sums, evidence ids) as functions of the precursor list; the cells of the other
   generators (annotations, MaxLFQ, sequence coverage, Triqler) are a PARAMETER (`foreign`).  `writerSegments` is the
   pure pipeline (every generator sees the same immutable list), `runSt` the pipeline as Python permits it (a
   generator may replace `pgr.precursorQuants`).

Executable, total, Mathlib-free.
-/
import PgFdr.Model.C12
import PgFdr.Model.C10
import PgFdr.Model.C13

namespace PgFdr.C12

/-! ## remapping of the evidence rows -/

/-- `parse_evidence_file_multiple`: without remapping the maps are `[None]`; a single map serves all files;
    otherwise files and maps are zipped (the shorter list decides).  The same three lines as `C10.pairUp`
    (`pairFiles_eq_pairUp`), for any row type. -/
def pairFiles {α : Type} (remap : Bool) (maps : List C10.DMap) (files : List (List α)) : List (C10.DMap × List α) :=
  let maps1 := if remap then maps else [[]]
  let maps2 := if maps1.length = 1 then List.replicate files.length (maps1.headD []) else maps1
  maps2.zip files

/-- the row after `get_proteins(modified_peptide, row[protein_col].split(";"))` of the mapper, before the decoy purge
    (`prots`) and the `if not proteins: continue` (`parsed`): when the method remaps, the protein list is the digest's
    list of the STRIPPED modified sequence (empty for a peptide the digest does not know: the row is dropped);
    every other field — also `peptide`, which stays the modified sequence — is untouched -/
def remapRow (remap : Bool) (m : C10.DMap) (r : Row) : Row :=
  { r with leading := C10.sourceProteins remap m r.peptide r.leading }

/-- the rows `add_precursor_quants` iterates over: the files in the order of mention, each through the map of its
    position -/
def evidenceRows (remap : Bool) (maps : List C10.DMap) (files : List (List Row)) : List Row :=
  (pairFiles remap maps files).flatMap (fun p => p.2.map (remapRow remap p.1))

/-- the same with the `Raw file` of every row carried along (runs with an experimental design) -/
def evidenceRowsRaw (remap : Bool) (maps : List C10.DMap) (files : List (List (String × Row))) : List (String × Row) :=
  (pairFiles remap maps files).flatMap (fun p => p.2.map (fun x => (x.1, remapRow remap p.1 x.2)))

/-- `add_precursor_quants` + `append_quant_columns` on evidence FILES with their digest maps -/
def quantifyFiles (remap : Bool) (maps : List C10.DMap) (files : List (List Row)) (groups : List (List String))
    (level : Rat) (ibaq : List (String × Nat)) : Except String Output :=
  quantify (evidenceRows remap maps files) groups level ibaq

/-- the same with an experimental design / file list -/
def quantifyFilesDesign (design : List DesignLine) (remap : Bool) (maps : List C10.DMap)
    (files : List (List (String × Row))) (groups : List (List String)) (level : Rat) (ibaq : List (String × Nat)) :
    Except String Output :=
  quantifyDesign design (evidenceRowsRaw remap maps files) groups level ibaq

/-! ## the column pipeline -/

/-- a cell of `extraColumns` before formatting -/
inductive Cell where
  /-- a count (`int`) -/
  | nat (n : Nat)
  /-- a string cell (identification type) -/
  | str (s : String)
  /-- a float cell: the exact value (sums), or the exact quotient the float is the rounding of (iBAQ) -/
  | rat (q : Rat)
  /-- `";".join(map(str, numTheoreticalPeptides))` -/
  | nats (l : List Nat)
  /-- `";".join(map(str, evidenceIds))` -/
  | ints (l : List Int)
  /-- a cell of a generator C12 does not speak about (annotation, MaxLFQ, sequence coverage, Triqler) -/
  | foreign (tag : String)
deriving DecidableEq, Repr, Inhabited

/-- what `append_columns` of every generator reads besides the precursor list: attributes of the
    `ProteinGroupResults` (experiment list, channel numbers), the PEP cutoff it is handed, the iBAQ peptide numbers
    and the row's protein ids -/
structure ColCtx where
  exps : List String
  S : Nat
  /-- `num_silac_channels` / `num_tmt_channels` as stored (-1: no row parsed) -/
  nSilac : Int
  nTmt : Int
  c : Rat
  ibaq : List (String × Nat)
  ids : List String

/-- the attributes the C13 header / validity model looks at -/
def ColCtx.hdr (x : ColCtx) : C13.Ctx := { experiments := x.exps, silac := x.nSilac, tmt := x.nTmt }

/-- the cells the five C12 generators append to one row, in the order of their `pgr.append` / `pgr.extend` calls,
    as functions of the group's precursor list; `none` for the generators the property does not speak about -/
def c12Cells (x : ColCtx) (quants : List Row) : C13.Gen → Option (List Cell)
  | .uniqueCounts => some ((peptideCounts x.exps x.c quants).map .nat)
  | .idType => some ((idTypes x.exps x.c quants).map .str)
  | .sumIbaq =>
    let intens := intensities x.exps x.S x.c quants
    let lead : Rat := (leadingN x.ibaq x.ids : Nat)
    some ([Cell.rat (totalOf x.S intens)] ++ intens.map .rat ++ [Cell.nats (x.ids.map (nPepsOf x.ibaq))]
      ++ [Cell.rat (totalOf x.S intens / lead)] ++ intens.map (fun v => .rat (v / lead)))
  | .tmt => some ((tmtSums x.exps x.nTmt.toNat x.c quants).map .rat)
  | .evidenceIds => some [Cell.ints (evidenceIds x.c quants)]
  | _ => none

/-- is this one of the generators whose cells the property speaks about? -/
def isC12Gen (g : C13.Gen) : Bool :=
  g == .uniqueCounts || g == .idType || g == .sumIbaq || g == .tmt || g == .evidenceIds

/-- the cells generator `g` appends: its C12 function of the precursor list, or — any other generator — whatever
    `foreign g` computes from the list -/
def genCells (foreign : C13.Gen → List Row → List Cell) (x : ColCtx) (quants : List Row) (g : C13.Gen) : List Cell :=
  (c12Cells x quants g).getD (foreign g quants)

/-- `for c in self.get_columns(): c.append(results, cutoff)` seen from one row: the valid generators in the writer's
    order, each with the cells it appends; every generator is applied to the SAME precursor list -/
def writerSegments (foreign : C13.Gen → List Row → List Cell) (x : ColCtx) (quants : List Row) (gens : List C13.Gen) :
    List (C13.Gen × List Cell) :=
  (gens.filter (fun g => g.valid x.hdr)).map (fun g => (g, genCells foreign x quants g))

/-- the row's `extraColumns` -/
def writerCells (foreign : C13.Gen → List Row → List Cell) (x : ColCtx) (quants : List Row) (gens : List C13.Gen) :
    List Cell :=
  (writerSegments foreign x quants gens).flatMap (·.2)

/-- the cells generator `g` wrote (its segment of the row) -/
def segmentOf (segs : List (C13.Gen × List Cell)) (g : C13.Gen) : Option (List Cell) := segs.lookup g

/-- the context of the groups of a run `o` (the experiment list, channel numbers and cutoff every generator sees) -/
def ctxOfRun (S : Nat) (o : Output) (ibaq : List (String × Nat)) (ids : List String) : ColCtx :=
  { exps := o.experiments, S := S, nSilac := o.nSilac, nTmt := o.nTmt, c := o.cutoff, ibaq := ibaq, ids := ids }

/-- placeholder cells of the generators outside C12: as many as `append_columns` of the generator appends
    (`C13.Gen.vals`, shape only) -/
def placeholder (x : ColCtx) (g : C13.Gen) (_quants : List Row) : List Cell :=
  (g.vals x.hdr default).map Cell.foreign

/-- `extraColumns` of every written row of a run for the MaxQuant writer (`skipLfq` = `--skip_lfq`), cells of the
    generators outside C12 as placeholders -/
def runCells (skipLfq : Bool) (S : Nat) (o : Output) (ibaq : List (String × Nat)) : List (List Cell) :=
  o.groups.map (fun g =>
    writerCells (placeholder (ctxOfRun S o ibaq g.ids)) (ctxOfRun S o ibaq g.ids) g.quants
      (C13.Writer.maxquant skipLfq).columns)

/-- the header list the MaxQuant writer's generators build, with or without the MaxLFQ generator -/
def writerHeaders (skipLfq : Bool) (ctx : C13.Ctx) : Except String (List String) :=
  match C13.applyAll ctx (C13.Table.init []) (C13.Writer.maxquant skipLfq).columns with
  | .error e => .error e.toString
  | .ok t => .ok t.headers

/-! ### the pipeline as Python permits it: a generator may replace `pgr.precursorQuants` -/

/-- a generator that reads the group's precursor list, appends cells, and leaves a (possibly different) list behind
    (`pgr.precursorQuants = …` inside `append_columns`) -/
structure StGen where
  gen : C13.Gen
  run : List Row → List Cell × List Row

/-- the generators in turn, each on the list its predecessors left behind; result: the segments and the final list -/
def runSt : List StGen → List Row → List (C13.Gen × List Cell) × List Row
  | [], quants => ([], quants)
  | s :: rest, quants =>
    let r := s.run quants
    let t := runSt rest r.2
    ((s.gen, r.1) :: t.1, t.2)

/-- a read-only generator: the cells of `g` under `foreign`, the list handed on unchanged -/
def readOnly (foreign : C13.Gen → List Row → List Cell) (x : ColCtx) (g : C13.Gen) : StGen :=
  { gen := g, run := fun quants => (genCells foreign x quants g, quants) }

end PgFdr.C12
