/-
Shared executable helpers of the model: Python string operations on `List Char`/`String`
and the marker predicates of `picked_group_fdr/helpers.py`.  Mathlib-free.
-/
namespace PgFdr

/-- Python `pat in s` on character lists -/
def containsSub (pat : List Char) : List Char → Bool
  | [] => pat.isEmpty
  | s@(_ :: t) => pat.isPrefixOf s || containsSub pat t

/-- Python `s.replace(pat, rep)` for a non-empty `pat`: left to right, non-overlapping.
    `skip` counts the characters of a match still to be consumed (structural recursion). -/
def replaceAux (pat rep : List Char) : Nat → List Char → List Char
  | _, [] => []
  | skip + 1, _ :: t => replaceAux pat rep skip t
  | 0, c :: t =>
    if pat ≠ [] ∧ pat.isPrefixOf (c :: t) then rep ++ replaceAux pat rep (pat.length - 1) t
    else c :: replaceAux pat rep 0 t

def replaceAll (pat rep s : List Char) : List Char := replaceAux pat rep 0 s

def strContains (s pat : String) : Bool := containsSub pat.toList s.toList
def strReplace (s pat rep : String) : String := String.ofList (replaceAll pat.toList rep.toList s.toList)
def strStartsWith (s pre : String) : Bool := pre.toList.isPrefixOf s.toList

/-- `helpers._all_contain`: every member contains the marker (true for the empty group) -/
def allContain (group : List String) (marker : String) : Bool := group.all (fun x => strContains x marker)

/-- `helpers.is_contaminant` -/
def isContaminant (g : List String) : Bool := allContain g "CON__"
/-- `helpers.is_decoy`: all contain `REV__`, or all contain `rev_` (a mix of the two is not decoy) -/
def isDecoy (g : List String) : Bool := allContain g "REV__" || allContain g "rev_"
/-- `helpers.is_obsolete` -/
def isObsolete (g : List String) : Bool := allContain g "OBSOLETE__"

/-- `competition._clean_protein_id`: three sequential replacements -/
def cleanProteinId (p : String) : String :=
  strReplace (strReplace (strReplace p "REV__" "") "OBSOLETE__" "") "rev_" ""

/-- `helpers.remove_decoy_proteins_from_target_peptides` -/
def removeDecoyProteinsFromTargetPeptides (proteins : List String) : List String :=
  if isDecoy proteins then proteins
  else proteins.filter (fun p => !(strStartsWith p "REV__" || strStartsWith p "rev_"))

/-- Python `";".join(l)` -/
def joinWith (sep : String) : List String → String
  | [] => ""
  | [x] => x
  | x :: xs => x ++ sep ++ joinWith sep xs

end PgFdr

namespace PgFdr

/-- one entry of the `PeptideInfoList` dict (`peptide → (score, proteins)`), kept in dict
    (insertion) order; `pep` is the exact rational of the implementation's double -/
structure PepInfo where
  peptide : String
  pep : Rat
  proteins : List String
deriving Repr, DecidableEq, Inhabited

/-- one evidence tuple `(score, peptide, proteins)` of a protein group
    (`ProteinGroupPeptideInfos[i]`, scoring_strategy.collect_peptide_scores_per_protein) -/
structure Evidence where
  pep : Rat
  peptide : String
  proteins : List String
deriving Repr, DecidableEq, Inhabited

end PgFdr
