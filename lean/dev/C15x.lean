import PgFdr.Proofs.C15
import PgFdr.Proofs.C13
namespace PgFdr.C15

theorem bind_ok {ε α β} (x : Except ε α) (f : α → Except ε β) (b : β) (h : (x >>= f) = .ok b) :
    ∃ a, x = .ok a ∧ f a = .ok b := by
  cases x with
  | error e => simp [bind, Except.bind] at h
  | ok a => exact ⟨a, rfl, h⟩

theorem field_ok (row : Row) (i : Nat) (x : String) (h : field row i = .ok x) : row[i]? = some x := by
  unfold field at h
  cases hr : row[i]? with
  | none => rw [hr] at h; simp at h
  | some y => rw [hr] at h; simp at h; rw [h]

/-- what `psmOf` reads, cell by cell -/
theorem psmOf_ok (c : Cols) (row : Row) (p : Psm) (h : psmOf c row = .ok p) :
    ∃ scanF pepF, row[c.scan]? = some scanF ∧ scanOfCell scanF = .ok p.scan ∧
      row[c.raw]? = some p.raw ∧ row[c.modSeq]? = some pepF ∧ p.modSeq = slice 1 1 pepF ∧
      (∃ s, row[c.score]? = some s) ∧ (∃ e, row[c.pep]? = some e) := by
  unfold psmOf at h
  obtain ⟨scanF, h1, h⟩ := bind_ok _ _ _ h
  obtain ⟨scan, h2, h⟩ := bind_ok _ _ _ h
  obtain ⟨_, _, h⟩ := bind_ok _ _ _ h
  obtain ⟨raw, h3, h⟩ := bind_ok _ _ _ h
  obtain ⟨s, h4, h⟩ := bind_ok _ _ _ h
  obtain ⟨e, h5, h⟩ := bind_ok _ _ _ h
  obtain ⟨pepF, h6, h⟩ := bind_ok _ _ _ h
  obtain ⟨_, _, h⟩ := bind_ok _ _ _ h
  obtain ⟨_, _, h⟩ := bind_ok _ _ _ h
  obtain ⟨_, _, h⟩ := bind_ok _ _ _ h
  simp only [pure, Except.pure, Except.ok.injEq] at h
  subst h
  exact ⟨scanF, pepF, field_ok _ _ _ h1, h2, field_ok _ _ _ h3, field_ok _ _ _ h6, rfl,
    ⟨s, field_ok _ _ _ h4⟩, ⟨e, field_ok _ _ _ h5⟩⟩

theorem scanOfCell_none (f : String) (h : scanOfCell f = .ok none) :
    f.isEmpty = true ∨ parseInt? f.toList = some (-1) := by
  unfold scanOfCell at h
  split at h
  · left; assumption
  · right
    split at h
    · simp at h
    · rename_i i hi
      simp only [Except.ok.injEq] at h
      split at h
      · rename_i h1; rw [hi, h1]
      · simp at h

theorem scanOfCell_some (f : String) (n : Int) (h : scanOfCell f = .ok (some n)) :
    f.isEmpty = false ∧ parseInt? f.toList = some n ∧ n ≠ -1 := by
  unfold scanOfCell at h
  split at h
  · simp at h
  · rename_i he
    split at h
    · simp at h
    · rename_i i hi
      simp only [Except.ok.injEq] at h
      split at h
      · simp at h
      · rename_i h1
        simp at h; subst h
        exact ⟨by simpa using he, hi, h1⟩

theorem psmOf_scan_none_iff (c : Cols) (row : Row) (p : Psm) (h : psmOf c row = .ok p) :
    p.scan = none ↔ isMbrRow c row = true := by
  obtain ⟨scanF, pepF, h1, h2, _⟩ := psmOf_ok c row p h
  unfold isMbrRow
  rw [h1]
  simp only [Bool.or_eq_true, beq_iff_eq]
  constructor
  · intro hn
    rw [hn] at h2
    exact scanOfCell_none _ h2
  · intro hm
    cases hs : p.scan with
    | none => rfl
    | some n =>
      rw [hs] at h2
      obtain ⟨a, b, c'⟩ := scanOfCell_some _ _ h2
      rcases hm with hm | hm
      · rw [a] at hm; cases hm
      · rw [b] at hm; simp at hm; exact absurd hm c'

end PgFdr.C15
