import PgFdr.Proofs.C14
namespace PgFdr.C14
open PgFdr.C02 Equiv

theorem shuffle_permList {α : Type} (x : List α) (σ : Perm (Fin x.length)) :
    shuffle x (permList σ) = (List.finRange x.length).map (fun i => x[σ i]) := by
  unfold shuffle permList
  rw [List.filterMap_map]
  rw [← List.filterMap_eq_map]
  congr 1
  funext i
  simp

theorem permList_perm {n : ℕ} (σ : Perm (Fin n)) : (permList σ).Perm (List.range n) := by
  unfold permList
  have h1 : ((List.finRange n).map σ).Perm (List.finRange n) := by
    apply (List.perm_ext_iff_of_nodup ?_ (List.nodup_finRange n)).mpr
    · intro a; simp
      exact ⟨σ.symm a, by simp⟩
    · exact (List.nodup_finRange n).map σ.injective
  have := h1.map (fun i : Fin n => i.val)
  rw [List.map_map] at this
  simp only [List.map_coe_finRange_eq_range] at this
  exact this

theorem shuffled_tie_class_is_induced {α : Type} (x : List α) (p : α → Bool) (σ : Perm (Fin x.length)) :
    (shuffle x (permList σ)).filter p = (induced (fun i => p x[i]) σ).map (fun i => x[i]) := by
  rw [shuffle_permList]
  unfold induced
  rw [List.filter_map, List.filter_map, List.map_map]
  rfl
end PgFdr.C14
