import PgFdr.Props.C18

namespace PgFdr.C18
open PgFdr.Generated (MethodToml)

/-! ### SECTION-PROOFS -/

/-- all five keys of the TOML file are present ("well-typed configuration") -/
def wellTyped (t : MethodToml) : Bool :=
  t.pickedStrategy.isSome && t.scoreType.isSome && t.sharedPeptides.isSome && t.grouping.isSome &&
    t.label.isSome

/-- a `--methods` value is well-typed: a name, or a custom file with all five keys -/
def MethodRef.wellTyped : MethodRef → Bool
  | .builtin _ => true
  | .custom t => C18.wellTyped t

/-- the errors `parseMethod` can return at all, and the field each one blames -/
theorem parseMethod_error_cases (g : Bool) (t : MethodToml) (e : Err) (h : parseMethod g t = .error e) :
    (e = .missingKey "pickedStrategy" ∧ t.pickedStrategy = none) ∨
    (e = .missingKey "scoreType" ∧ t.scoreType = none) ∨
    (e = .missingKey "sharedPeptides" ∧ t.sharedPeptides = none) ∨
    (e = .missingKey "grouping" ∧ t.grouping = none ∧ g = false) ∨
    (e = .missingKey "label" ∧ t.label = none) ∨
    e = .unknownPicked ∨ e = .unknownScore ∨ e = .unknownGrouping := by
  unfold parseMethod at h
  split at h
  · injection h with h; subst h; simp_all
  · split at h
    · injection h with h; subst h; simp
    · split at h
      · injection h with h; subst h; simp_all
      · split at h
        · injection h with h; subst h; simp_all
        · split at h
          · injection h with h; subst h; simp
          · split at h
            · injection h with h; subst h
              rename_i hg
              cases g <;> simp_all
            · split at h
              · injection h with h; subst h; simp
              · split at h
                · injection h with h; subst h; simp_all
                · cases h

theorem parseMethod_error_wellTyped (g : Bool) (t : MethodToml) (e : Err) (hw : wellTyped t = true)
    (h : parseMethod g t = .error e) : e = .unknownPicked ∨ e = .unknownScore ∨ e = .unknownGrouping := by
  simp only [wellTyped, Bool.and_eq_true] at hw
  obtain ⟨⟨⟨⟨h1, h2⟩, h3⟩, h4⟩, h5⟩ := hw
  rcases parseMethod_error_cases g t e h with ⟨-, h'⟩ | ⟨-, h'⟩ | ⟨-, h'⟩ | ⟨-, h', -⟩ | ⟨-, h'⟩ | h'
  · rw [h'] at h1; cases h1
  · rw [h'] at h2; cases h2
  · rw [h'] at h3; cases h3
  · rw [h'] at h4; cases h4
  · rw [h'] at h5; cases h5
  · exact h'

/-- exact characterisation of the three parse refusals on a configuration with all five keys -/
theorem parseMethod_refusals (g : Bool) (t : MethodToml) (pk st sh gr lb : String)
    (hpk : t.pickedStrategy = some pk) (hst : t.scoreType = some st) (hsh : t.sharedPeptides = some sh)
    (hgr : t.grouping = some gr) (hlb : t.label = some lb) :
    (parseMethod g t = .error .unknownPicked ↔ parsePicked pk = none) ∧
    (parseMethod g t = .error .unknownScore ↔
      parsePicked pk ≠ none ∧ parseScore (scoreDescription st sh) = none) ∧
    (parseMethod g t = .error .unknownGrouping ↔
      parsePicked pk ≠ none ∧ parseScore (scoreDescription st sh) ≠ none ∧
        parseGrouping (if g then "pseudo_gene" else gr) = none) ∧
    ((∃ c, parseMethod g t = .ok c) ↔
      parsePicked pk ≠ none ∧ parseScore (scoreDescription st sh) ≠ none ∧
        parseGrouping (if g then "pseudo_gene" else gr) ≠ none) := by
  unfold parseMethod
  simp only [hpk, hst, hsh, hgr, hlb]
  have hgn : (if g = true then some "pseudo_gene" else some gr) = some (if g then "pseudo_gene" else gr) := by
    cases g <;> rfl
  simp only [hgn]
  cases h1 : parsePicked pk <;> cases h2 : parseScore (scoreDescription st sh) <;>
    cases h3 : parseGrouping (if g then "pseudo_gene" else gr) <;> simp

theorem findMethod_error_iff (tbl : List MethodToml) (n : String) (e : Err) :
    findMethod tbl n = .error e ↔ e = .unknownMethod ∧ n ∉ tbl.map (·.name) := by
  unfold findMethod
  cases hf : tbl.find? (fun m => m.name == n) with
  | some m =>
    have hm := List.find?_some hf
    have hmem := List.mem_of_find?_eq_some hf
    simp only [beq_iff_eq] at hm
    simp only [reduceCtorEq, false_iff, not_and, not_not]
    intro _
    exact List.mem_map.mpr ⟨m, hmem, hm⟩
  | none =>
    rw [List.find?_eq_none] at hf
    simp only [Except.error.injEq]
    constructor
    · intro h
      refine ⟨h.symm, ?_⟩
      intro hmem
      obtain ⟨m, hm, hn⟩ := List.mem_map.mp hmem
      exact hf m hm (by simpa using hn)
    · intro h; exact h.1.symm

theorem findMethod_ok_mem (tbl : List MethodToml) (n : String) (m : MethodToml) (h : findMethod tbl n = .ok m) :
    m ∈ tbl ∧ m.name = n := by
  unfold findMethod at h
  cases hf : tbl.find? (fun m => m.name == n) with
  | some m' =>
    rw [hf] at h
    injection h with h
    subst h
    exact ⟨List.mem_of_find?_eq_some hf, by simpa using List.find?_some hf⟩
  | none => rw [hf] at h; cases h

/-- a `--methods` value resolves and parses -/
def Parses (tbl : List MethodToml) (g : Bool) (m : MethodRef) (c : Cfg) : Prop :=
  ∃ t, resolve tbl m = .ok t ∧ parseMethod g t = .ok c

/-- a `--methods` value is refused with `e` while being located or parsed -/
def RefusedAt (tbl : List MethodToml) (g : Bool) (m : MethodRef) (e : Err) : Prop :=
  resolve tbl m = .error e ∨ ∃ t, resolve tbl m = .ok t ∧ parseMethod g t = .error e

theorem parseAll_ok_iff (tbl : List MethodToml) (g : Bool) (ms : List MethodRef) (cfgs : List Cfg) :
    parseAll tbl g ms = .ok cfgs ↔ List.Forall₂ (Parses tbl g) ms cfgs := by
  induction ms generalizing cfgs with
  | nil =>
    simp only [parseAll, Except.ok.injEq]
    constructor
    · intro h; subst h; exact .nil
    · intro h; cases h; rfl
  | cons m r ih =>
    simp only [parseAll]
    constructor
    · intro h
      cases hr : resolve tbl m with
      | error e => rw [hr] at h; cases h
      | ok t =>
        rw [hr] at h
        simp only at h
        cases hp : parseMethod g t with
        | error e => rw [hp] at h; cases h
        | ok c =>
          rw [hp] at h
          simp only at h
          cases hpa : parseAll tbl g r with
          | error e => rw [hpa] at h; cases h
          | ok cs =>
            rw [hpa] at h
            injection h with h
            subst h
            exact .cons ⟨t, hr, hp⟩ ((ih cs).mp hpa)
    · intro h
      cases h with
      | cons h1 h2 =>
        obtain ⟨t, hr, hp⟩ := h1
        rw [hr]
        simp only [hp, (ih _).mpr h2]

theorem parseAll_error_iff (tbl : List MethodToml) (g : Bool) (ms : List MethodRef) (e : Err) :
    parseAll tbl g ms = .error e ↔
      ∃ pre m post, ms = pre ++ m :: post ∧ (∀ x ∈ pre, ∃ c, Parses tbl g x c) ∧ RefusedAt tbl g m e := by
  induction ms with
  | nil =>
    simp only [parseAll, reduceCtorEq, false_iff]
    rintro ⟨pre, m, post, h, -⟩
    simp at h
  | cons m r ih =>
    simp only [parseAll]
    constructor
    · intro h
      cases hr : resolve tbl m with
      | error e' =>
        rw [hr] at h
        injection h with h
        subst h
        exact ⟨[], m, r, rfl, by simp, Or.inl hr⟩
      | ok t =>
        rw [hr] at h
        simp only at h
        cases hp : parseMethod g t with
        | error e' =>
          rw [hp] at h
          injection h with h
          subst h
          exact ⟨[], m, r, rfl, by simp, Or.inr ⟨t, hr, hp⟩⟩
        | ok c =>
          rw [hp] at h
          simp only at h
          cases hpa : parseAll tbl g r with
          | ok cs => rw [hpa] at h; cases h
          | error e' =>
            rw [hpa] at h
            injection h with h
            subst h
            obtain ⟨pre, m', post, hms, hpre, hm'⟩ := ih.mp hpa
            refine ⟨m :: pre, m', post, by simp [hms], ?_, hm'⟩
            intro x hx
            rcases List.mem_cons.mp hx with hx | hx
            · subst hx; exact ⟨c, t, hr, hp⟩
            · exact hpre x hx
    · rintro ⟨pre, m', post, hms, hpre, hm'⟩
      cases pre with
      | nil =>
        simp only [List.nil_append, List.cons.injEq] at hms
        obtain ⟨rfl, rfl⟩ := hms
        rcases hm' with hr | ⟨t, hr, hp⟩
        · rw [hr]
        · rw [hr]; simp only [hp]
      | cons x pre' =>
        simp only [List.cons_append, List.cons.injEq] at hms
        obtain ⟨rfl, hr'⟩ := hms
        obtain ⟨c, t, hr, hp⟩ := hpre m List.mem_cons_self
        rw [hr]
        simp only [hp]
        have := ih.mpr ⟨pre', m', post, hr', fun y hy => hpre y (List.mem_cons_of_mem _ hy), hm'⟩
        rw [this]

theorem RefusedAt_cases (tbl : List MethodToml) (g : Bool) (m : MethodRef) (e : Err) (h : RefusedAt tbl g m e) :
    (e = .unknownMethod ∧ ∃ n, m = .builtin n ∧ n ∉ tbl.map (·.name)) ∨
    ∃ t, resolve tbl m = .ok t ∧ parseMethod g t = .error e := by
  rcases h with h | h
  · left
    cases m with
    | builtin n =>
      obtain ⟨h1, h2⟩ := (findMethod_error_iff tbl n e).mp h
      exact ⟨h1, n, rfl, h2⟩
    | custom t => cases h
  · exact Or.inr h

theorem parseMethod_ne_unknownMethod (g : Bool) (t : MethodToml) : parseMethod g t ≠ .error .unknownMethod := by
  intro h
  have := parseMethod_error_cases g t _ h
  simp at this

/-- what `runLoop` returns: every method up to the first refusal has a `table`/`skipped` entry, the
    refusal ends the list -/
theorem runLoop_spec (s : Supplied) (cfgs : List Cfg) :
    ((∀ x ∈ cfgs, runMethod s x = .ok () ∨ runMethod s x = .error .missingInput) ∧
      runLoop s cfgs =
        cfgs.map (fun x => match runMethod s x with | .ok () => Outcome.table | .error _ => Outcome.skipped)) ∨
    (∃ pre c post e, cfgs = pre ++ c :: post ∧
      (∀ x ∈ pre, runMethod s x = .ok () ∨ runMethod s x = .error .missingInput) ∧
      runMethod s c = .error e ∧ e ≠ .missingInput ∧
      runLoop s cfgs =
        pre.map (fun x => match runMethod s x with | .ok () => Outcome.table | .error _ => Outcome.skipped)
          ++ [.abort e]) := by
  induction cfgs with
  | nil => left; exact ⟨by simp, rfl⟩
  | cons c r ih =>
    cases hc : runMethod s c with
    | ok u =>
      rcases ih with ⟨h1, h2⟩ | ⟨pre, c', post, e, h1, h2, h3, h4, h5⟩
      · left
        refine ⟨?_, ?_⟩
        · intro x hx
          rcases List.mem_cons.mp hx with hx | hx
          · subst hx; exact Or.inl hc
          · exact h1 x hx
        · simp only [runLoop, hc, h2, List.map_cons]
      · right
        refine ⟨c :: pre, c', post, e, by simp [h1], ?_, h3, h4, ?_⟩
        · intro x hx
          rcases List.mem_cons.mp hx with hx | hx
          · subst hx; exact Or.inl hc
          · exact h2 x hx
        · simp only [runLoop, hc, h5, List.map_cons, List.cons_append]
    | error e =>
      by_cases he : e = .missingInput
      · subst he
        rcases ih with ⟨h1, h2⟩ | ⟨pre, c', post, e, h1, h2, h3, h4, h5⟩
        · left
          refine ⟨?_, ?_⟩
          · intro x hx
            rcases List.mem_cons.mp hx with hx | hx
            · subst hx; exact Or.inr hc
            · exact h1 x hx
          · simp only [runLoop, hc, h2, List.map_cons]
        · right
          refine ⟨c :: pre, c', post, e, by simp [h1], ?_, h3, h4, ?_⟩
          · intro x hx
            rcases List.mem_cons.mp hx with hx | hx
            · subst hx; exact Or.inr hc
            · exact h2 x hx
          · simp only [runLoop, hc, h5, List.map_cons, List.cons_append]
      · right
        refine ⟨[], c, r, e, rfl, by simp, hc, he, ?_⟩
        cases e <;> first | exact absurd rfl he | simp [runLoop, hc]


theorem runLoop_map_irrelevant (s : Supplied) (b : Bool) (cfgs : List Cfg) :
    runLoop { s with map := b } cfgs = runLoop s cfgs := by
  induction cfgs with
  | nil => rfl
  | cons c r ih =>
    have : runMethod { s with map := b } c = runMethod s c := by
      unfold runMethod
      have : ({ s with map := b } : Supplied).has c.input = s.has c.input := by
        cases c.input <;> rfl
      rw [this]
    simp only [runLoop, this, ih]

/-! ### SECTION-PROPS -/

/-! ## The named refusals, each characterised exactly

The tool's refusals are `Err` values.  Three of them can only arise while the methods are located and parsed
(`unknownMethod`, `unknownPicked`/`unknownScore`/`unknownGrouping`), one between parsing and the method loop
(`missingFasta`), four inside the loop (`missingInput`, which is a warning and does not stop the run, and
`noScoreColumn`, `missingMqProteinGroups`, `rescueUnsupported`, which end it: the entry `Outcome.abort e`).  For the
executable `runCli` the first two groups are its `.error` results, the last group the entries of its outcome list. -/

/-- "(… with and without a FASTA file)": the run is refused for the missing FASTA file / peptide → protein map
    exactly when every method was found and parsed, some parsed method needs the map — it groups by pseudo-genes or
    its score origin re-maps peptides to proteins — and neither `--fasta` nor `--peptide_protein_map` was given.
    (`parseAll` itself never returns this error.) -/
theorem missing_fasta_iff (tbl : List MethodToml) (g : Bool) (s : Supplied) (ms : List MethodRef) :
    runCli tbl g s ms = .error .missingFasta ↔
      ∃ cfgs, parseAll tbl g ms = .ok cfgs ∧
        (∃ c ∈ cfgs, c.grouping = .pseudoGene ∨ c.origin.remaps = true) ∧ s.map = false := by
  have hany : ∀ cfgs : List Cfg, cfgs.any Cfg.needsMap = true ↔
      ∃ c ∈ cfgs, c.grouping = .pseudoGene ∨ c.origin.remaps = true := by
    intro cfgs
    simp [List.any_eq_true, Cfg.needsMap]
  unfold runCli
  cases hp : parseAll tbl g ms with
  | error e =>
    simp only [Except.error.injEq, reduceCtorEq, false_and, exists_false, iff_false]
    intro he
    subst he
    obtain ⟨pre, m, post, -, -, hm⟩ := (parseAll_error_iff tbl g ms _).mp hp
    rcases RefusedAt_cases tbl g m _ hm with ⟨h, -⟩ | ⟨t, -, h⟩
    · cases h
    · have := parseMethod_error_cases g t _ h
      simp at this
  | ok cfgs =>
    simp only [Except.ok.injEq, exists_eq_left']
    rw [← hany]
    cases h1 : cfgs.any Cfg.needsMap <;> cases h2 : s.map <;> simp

/-- "completes and writes a table … without a FASTA file": the run reaches the method loop exactly when every
    method is found and parses and the map is there or no parsed method needs it; its outcome list is then the
    loop's.  With `s.map = false` this is the "without a FASTA file" half of the quantifier. -/
theorem runCli_ok_iff (tbl : List MethodToml) (g : Bool) (s : Supplied) (ms : List MethodRef)
    (cfgs : List Cfg) (os : List Outcome) :
    runCli tbl g s ms = .ok (cfgs, os) ↔
      parseAll tbl g ms = .ok cfgs ∧ (s.map = true ∨ ∀ c ∈ cfgs, c.needsMap = false) ∧ os = runLoop s cfgs := by
  unfold runCli
  cases hp : parseAll tbl g ms with
  | error e => simp
  | ok cs =>
    simp only [Except.ok.injEq]
    cases h1 : cs.any Cfg.needsMap <;> cases h2 : s.map
    all_goals simp only [Bool.not_false, Bool.not_true, Bool.and_true, Bool.and_false, Bool.false_eq_true,
      if_false, if_true, Except.ok.injEq, Prod.mk.injEq, reduceCtorEq, false_iff, true_or, false_or, true_and]
    · constructor
      · rintro ⟨rfl, rfl⟩
        refine ⟨rfl, ?_, rfl⟩
        intro c hc
        cases hn : c.needsMap
        · rfl
        · have : cs.any Cfg.needsMap = true := List.any_eq_true.mpr ⟨c, hc, hn⟩
          rw [h1] at this; cases this
      · rintro ⟨rfl, -, rfl⟩; exact ⟨rfl, rfl⟩
    · constructor
      · rintro ⟨rfl, rfl⟩; exact ⟨rfl, rfl⟩
      · rintro ⟨rfl, rfl⟩; exact ⟨rfl, rfl⟩
    · rintro ⟨rfl, hall, -⟩
      obtain ⟨c, hc, hn⟩ := List.any_eq_true.mp h1
      rw [hall c hc] at hn; cases hn
    · constructor
      · rintro ⟨rfl, rfl⟩; exact ⟨rfl, rfl⟩
      · rintro ⟨rfl, rfl⟩; exact ⟨rfl, rfl⟩

/-- "unknown names" (1): the run is refused with `Could not find method` exactly when some method given by name is
    not the name of a built-in file and every method before it was found and parsed (methods are located and parsed
    in the order given; the first failure ends the run) -/
theorem unknown_method_iff (tbl : List MethodToml) (g : Bool) (s : Supplied) (ms : List MethodRef) :
    runCli tbl g s ms = .error .unknownMethod ↔
      ∃ pre n post, ms = pre ++ MethodRef.builtin n :: post ∧ n ∉ tbl.map (·.name) ∧
        ∀ x ∈ pre, ∃ t c, resolve tbl x = .ok t ∧ parseMethod g t = .ok c := by
  have hcli : runCli tbl g s ms = .error .unknownMethod ↔ parseAll tbl g ms = .error .unknownMethod := by
    unfold runCli
    cases hp : parseAll tbl g ms with
    | error e => simp
    | ok cs =>
      simp only [reduceCtorEq, iff_false]
      split <;> simp
  rw [hcli, parseAll_error_iff]
  constructor
  · rintro ⟨pre, m, post, hms, hpre, hm⟩
    rcases RefusedAt_cases tbl g m _ hm with ⟨-, n, rfl, hn⟩ | ⟨t, -, h⟩
    · exact ⟨pre, n, post, hms, hn, fun x hx => by obtain ⟨c, t, h1, h2⟩ := hpre x hx; exact ⟨t, c, h1, h2⟩⟩
    · exact absurd h (parseMethod_ne_unknownMethod g t)
  · rintro ⟨pre, n, post, hms, hn, hpre⟩
    refine ⟨pre, .builtin n, post, hms, ?_, Or.inl ?_⟩
    · intro x hx; obtain ⟨t, c, h1, h2⟩ := hpre x hx; exact ⟨c, t, h1, h2⟩
    · exact (findMethod_error_iff tbl n _).mpr ⟨rfl, hn⟩

/-- the same for the shipped table, where every file parses (protein-level and with the pseudo-gene fallback):
    a list of names is refused with `Could not find method` exactly when one of them is not a shipped name -/
theorem unknown_method_iff_shipped (g : Bool) (s : Supplied) (names : List String) :
    runCli Generated.methods g s (names.map .builtin) = .error .unknownMethod ↔
      ∃ n ∈ names, n ∉ Generated.methods.map (·.name) := by
  rw [unknown_method_iff]
  constructor
  · rintro ⟨pre, n, post, hms, hn, -⟩
    refine ⟨n, ?_, hn⟩
    have : MethodRef.builtin n ∈ names.map MethodRef.builtin := by rw [hms]; simp
    obtain ⟨n', hn', he⟩ := List.mem_map.mp this
    cases he; exact hn'
  · rintro ⟨n, hn, hnot⟩
    -- the first name that is not shipped
    have key : ∀ names : List String, (∃ n ∈ names, n ∉ Generated.methods.map (·.name)) →
        ∃ pre n post, names = pre ++ n :: post ∧ n ∉ Generated.methods.map (·.name) ∧
          ∀ x ∈ pre, x ∈ Generated.methods.map (·.name) := by
      intro names
      induction names with
      | nil => rintro ⟨n, hn, -⟩; cases hn
      | cons a r ih =>
        rintro ⟨n, hn, hnot⟩
        by_cases ha : a ∈ Generated.methods.map (·.name)
        · have hr : ∃ n ∈ r, n ∉ Generated.methods.map (·.name) := by
            rcases List.mem_cons.mp hn with h | h
            · subst h; exact absurd ha hnot
            · exact ⟨n, h, hnot⟩
          obtain ⟨pre, n', post, h1, h2, h3⟩ := ih hr
          refine ⟨a :: pre, n', post, by simp [h1], h2, ?_⟩
          intro x hx
          rcases List.mem_cons.mp hx with h | h
          · subst h; exact ha
          · exact h3 x h
        · exact ⟨[], a, r, rfl, ha, by simp⟩
    obtain ⟨pre, n', post, h1, h2, h3⟩ := key names ⟨n, hn, hnot⟩
    refine ⟨pre.map .builtin, n', post.map .builtin, by simp [h1], h2, ?_⟩
    intro x hx
    obtain ⟨a, ha, rfl⟩ := List.mem_map.mp hx
    obtain ⟨m, hm, hname⟩ := List.mem_map.mp (h3 a ha)
    have hfind : ∃ m', findMethod Generated.methods a = .ok m' := by
      cases hf : findMethod Generated.methods a with
      | ok m' => exact ⟨m', rfl⟩
      | error e =>
        have := ((findMethod_error_iff _ _ _).mp hf).2
        exact absurd (h3 a ha) this
    obtain ⟨m', hm'⟩ := hfind
    obtain ⟨hmem, -⟩ := findMethod_ok_mem _ _ _ hm'
    obtain ⟨cfg, -, hp, -⟩ := shipped_methods_guarantees g m' hmem
    exact ⟨m', cfg, hm', hp⟩

/-- "unknown names" (2): on a configuration with all five keys the three parse refusals are raised exactly for a
    competition name outside `picked`/`picked_group`/`classic`, else for a score description naming none of
    `multPEP`/`bestPEP`/`Andromeda`/`MQ_protein`, else for a grouping name outside the six known ones (never in a
    gene-level run with the pseudo-gene fallback, which overrides the grouping); otherwise it parses -/
theorem parse_refusals_iff (g : Bool) (t : MethodToml) (pk st sh gr lb : String)
    (hpk : t.pickedStrategy = some pk) (hst : t.scoreType = some st) (hsh : t.sharedPeptides = some sh)
    (hgr : t.grouping = some gr) (hlb : t.label = some lb) :
    (parseMethod g t = .error .unknownPicked ↔ pk ∉ ["picked", "picked_group", "classic"]) ∧
    (parseMethod g t = .error .unknownScore ↔
      pk ∈ ["picked", "picked_group", "classic"] ∧
      ∀ w ∈ ["multPEP", "bestPEP", "Andromeda", "MQ_protein"], has (scoreDescription st sh) w = false) ∧
    (parseMethod g t = .error .unknownGrouping ↔
      pk ∈ ["picked", "picked_group", "classic"] ∧
      (∃ w ∈ ["multPEP", "bestPEP", "Andromeda", "MQ_protein"], has (scoreDescription st sh) w = true) ∧
      g = false ∧ gr ∉ ["no", "subset", "rescued_subset", "mq_native", "rescued_mq_native", "pseudo_gene"]) ∧
    ((∃ c, parseMethod g t = .ok c) ↔
      pk ∈ ["picked", "picked_group", "classic"] ∧
      (∃ w ∈ ["multPEP", "bestPEP", "Andromeda", "MQ_protein"], has (scoreDescription st sh) w = true) ∧
      (g = true ∨ gr ∈ ["no", "subset", "rescued_subset", "mq_native", "rescued_mq_native", "pseudo_gene"])) := by
  have hP : parsePicked pk = none ↔ pk ∉ ["picked", "picked_group", "classic"] := by
    unfold parsePicked
    simp only [beq_iff_eq, List.mem_cons, List.not_mem_nil, or_false, not_or]
    repeat' split
    all_goals simp_all
  have hS : parseScore (scoreDescription st sh) = none ↔
      ∀ w ∈ ["multPEP", "bestPEP", "Andromeda", "MQ_protein"], has (scoreDescription st sh) w = false := by
    unfold parseScore
    simp only [List.mem_cons, List.not_mem_nil, or_false, forall_eq_or_imp, forall_eq]
    repeat' split
    all_goals simp_all
  have hG : parseGrouping (if g then "pseudo_gene" else gr) = none ↔
      g = false ∧ gr ∉ ["no", "subset", "rescued_subset", "mq_native", "rescued_mq_native", "pseudo_gene"] := by
    cases g
    · unfold parseGrouping
      simp only [Bool.false_eq_true, if_false, beq_iff_eq, List.mem_cons, List.not_mem_nil, or_false, not_or,
        true_and]
      repeat' split
      all_goals simp_all
    · simp only [if_true, reduceCtorEq, false_and, iff_false]
      decide
  obtain ⟨h1, h2, h3, h4⟩ := parseMethod_refusals g t pk st sh gr lb hpk hst hsh hgr hlb
  have hS' : parseScore (scoreDescription st sh) ≠ none ↔
      ∃ w ∈ ["multPEP", "bestPEP", "Andromeda", "MQ_protein"], has (scoreDescription st sh) w = true := by
    rw [Ne, hS]
    constructor
    · intro h
      apply Classical.byContradiction
      intro hne
      apply h
      intro w hw
      cases hh : has (scoreDescription st sh) w
      · rfl
      · exact absurd ⟨w, hw, hh⟩ hne
    · rintro ⟨w, hw, hh⟩ h
      rw [h w hw] at hh; cases hh
  have hP' : parsePicked pk ≠ none ↔ pk ∈ ["picked", "picked_group", "classic"] := by
    rw [Ne, hP, Classical.not_not]
  have hG' : parseGrouping (if g then "pseudo_gene" else gr) ≠ none ↔
      (g = true ∨ gr ∈ ["no", "subset", "rescued_subset", "mq_native", "rescued_mq_native", "pseudo_gene"]) := by
    rw [Ne, hG]
    cases g
    · simp only [true_and, Classical.not_not, Bool.false_eq_true, false_or]
    · simp
  refine ⟨h1.trans hP, ?_, ?_, ?_⟩
  · rw [h2, hP', hS]
  · rw [h3, hP', hS', hG]
  · rw [h4, hP', hS', hG']

/-- "no score column": a parsed method is refused for lack of an evidence score column exactly when its input
    file was given and its score is MaxQuant's protein score (`MQ_protein`: `get_score_column()` is `None`) -/
theorem no_score_column_iff (s : Supplied) (c : Cfg) :
    runMethod s c = .error .noScoreColumn ↔ s.has c.input = true ∧ c.score = .mqProtein := by
  have hcol : c.scoreColumn.isNone = true ↔ c.score = .mqProtein := by
    unfold Cfg.scoreColumn
    cases c.score <;> simp <;> split <;> simp
  unfold runMethod
  cases h1 : s.has c.input
  · simp
  · simp only [Bool.not_true, Bool.false_eq_true, if_false, true_and]
    rw [← hcol]
    cases h2 : c.scoreColumn.isNone
    · simp only [Bool.false_eq_true, if_false, iff_false]
      intro h'
      split at h'
      · cases h'
      · split at h' <;> cases h'
    · simp

/-- "missing proteinGroups file": a parsed method is refused for the missing `--mq_protein_groups` exactly when
    its input file was given, it has a score column, its grouping is MaxQuant's own (`mq_native`,
    `rescued_mq_native`) and no proteinGroups file was given -/
theorem missing_mq_protein_groups_iff (s : Supplied) (c : Cfg) :
    runMethod s c = .error .missingMqProteinGroups ↔
      s.has c.input = true ∧ c.scoreColumn.isSome = true ∧
      (c.grouping = .mqNative ∨ c.grouping = .rescuedMqNative) ∧ s.mqGroups = false := by
  have hg : c.grouping.needsMqGroups = true ↔ (c.grouping = .mqNative ∨ c.grouping = .rescuedMqNative) := by
    cases c.grouping <;> simp [Grouping.needsMqGroups]
  rw [← hg]
  unfold runMethod
  cases h1 : s.has c.input <;> cases h2 : c.scoreColumn.isNone <;>
    cases h3 : c.grouping.needsMqGroups <;> cases h4 : s.mqGroups <;>
    cases h5 : c.grouping.rescues <;> cases h6 : c.score.canRescue <;>
    simp_all [Option.isNone_iff_eq_none, Option.isSome_iff_ne_none]

/-- the refusals inside the method loop, for the executable `runCli`: the outcome list of a run that reaches the
    loop has one entry per method up to the first refusal — `table` where `runMethod` succeeds, `skipped` where the
    input file is missing — and ends with `abort e` exactly at the first method that `runMethod` refuses with an
    error `e` other than the missing-input warning; `e` is then one of the three refusals characterised by
    `no_score_column_iff`, `missing_mq_protein_groups_iff`, `rescue_unsupported_iff` -/
theorem runCli_abort_iff (tbl : List MethodToml) (g : Bool) (s : Supplied) (ms : List MethodRef)
    (cfgs : List Cfg) (os : List Outcome) (h : runCli tbl g s ms = .ok (cfgs, os)) (e : Err) :
    Outcome.abort e ∈ os ↔
      ∃ pre c post, cfgs = pre ++ c :: post ∧
        (∀ x ∈ pre, runMethod s x = .ok () ∨ runMethod s x = .error .missingInput) ∧
        runMethod s c = .error e ∧ e ≠ .missingInput ∧
        os = pre.map (fun x => match runMethod s x with | .ok () => Outcome.table | .error _ => Outcome.skipped)
              ++ [.abort e] ∧
        (e = .noScoreColumn ∨ e = .missingMqProteinGroups ∨ e = .rescueUnsupported) := by
  obtain ⟨-, -, hos⟩ := (runCli_ok_iff tbl g s ms cfgs os).mp h
  subst hos
  constructor
  · intro hmem
    rcases runLoop_spec s cfgs with ⟨-, h2⟩ | ⟨pre, c, post, e', h1, h2, h3, h4, h5⟩
    · rw [h2] at hmem
      obtain ⟨x, -, hx⟩ := List.mem_map.mp hmem
      split at hx <;> cases hx
    · have he : e = e' := by
        rw [h5] at hmem
        rcases List.mem_append.mp hmem with hm | hm
        · obtain ⟨x, -, hx⟩ := List.mem_map.mp hm
          split at hx <;> cases hx
        · simpa using hm
      subst he
      refine ⟨pre, c, post, h1, h2, h3, h4, h5, ?_⟩
      rcases runMethod_error_cases s c e h3 with h | h
      · exact absurd h h4
      · exact h
  · rintro ⟨pre, c, post, -, -, -, -, hos, -⟩
    rw [hos]; simp

/-- Bool form of "the five keys are present in every shipped file", evaluated by the kernel -/
theorem shipped_methods_well_typed : ∀ m ∈ Generated.methods, wellTyped m = true := by decide +kernel

/-- "combinations the tool does not support are refused with its own explanatory error … instead of an internal
    error", for the executable `runCli`: on a well-typed input — every file of the table and every custom file has
    the five keys (the Bool side conditions `tbl.all wellTyped`, `ms.all MethodRef.wellTyped`) — the ONLY errors
    `runCli` can return are the named refusals `unknownMethod`, `unknownPicked`, `unknownScore`, `unknownGrouping`
    and `missingFasta`; and when it reaches the method loop every outcome is a table, the missing-input warning,
    or a final `abort` with `noScoreColumn`, `missingMqProteinGroups` or `rescueUnsupported`.  No `missingKey`, and
    no other value of `Err`, is reachable. -/
theorem runCli_error_set (tbl : List MethodToml) (g : Bool) (s : Supplied) (ms : List MethodRef)
    (htbl : tbl.all wellTyped = true) (hms : ms.all MethodRef.wellTyped = true) :
    (∀ e, runCli tbl g s ms = .error e →
      e = .unknownMethod ∨ e = .unknownPicked ∨ e = .unknownScore ∨ e = .unknownGrouping ∨ e = .missingFasta) ∧
    (∀ cfgs os, runCli tbl g s ms = .ok (cfgs, os) → ∀ o ∈ os,
      o = .table ∨ o = .skipped ∨ o = .abort .noScoreColumn ∨ o = .abort .missingMqProteinGroups ∨
        o = .abort .rescueUnsupported) := by
  constructor
  · intro e he
    unfold runCli at he
    cases hp : parseAll tbl g ms with
    | ok cs =>
      rw [hp] at he
      simp only at he
      split at he
      · injection he with he; subst he; simp
      · cases he
    | error e' =>
      rw [hp] at he
      injection he with he
      subst he
      obtain ⟨pre, m, post, hms', -, hm⟩ := (parseAll_error_iff tbl g ms _).mp hp
      rcases RefusedAt_cases tbl g m _ hm with ⟨h, -⟩ | ⟨t, hr, h⟩
      · exact Or.inl h
      · have hw : wellTyped t = true := by
          cases m with
          | builtin n =>
            obtain ⟨hmem, -⟩ := findMethod_ok_mem tbl n t hr
            exact List.all_eq_true.mp htbl t hmem
          | custom t' =>
            injection hr with hr
            subst hr
            exact List.all_eq_true.mp hms (.custom t') (by rw [hms']; simp)
        rcases parseMethod_error_wellTyped g t _ hw h with h | h | h
        · exact Or.inr (Or.inl h)
        · exact Or.inr (Or.inr (Or.inl h))
        · exact Or.inr (Or.inr (Or.inr (Or.inl h)))
  · intro cfgs os h o ho
    obtain ⟨-, -, hos⟩ := (runCli_ok_iff tbl g s ms cfgs os).mp h
    cases o with
    | table => simp
    | skipped => simp
    | abort e =>
      obtain ⟨-, -, -, -, -, -, -, -, he⟩ := (runCli_abort_iff tbl g s ms cfgs os h e).mp ho
      rcases he with he | he | he <;> subst he <;> simp

/-- for the shipped methods selected by name — protein-level or gene-level — the only errors are an unknown name and
    the missing FASTA file (every shipped file parses, with and without the pseudo-gene fallback) -/
theorem runCli_shipped_error_set (g : Bool) (s : Supplied) (names : List String) (e : Err)
    (he : runCli Generated.methods g s (names.map .builtin) = .error e) :
    e = .unknownMethod ∨ e = .missingFasta := by
  unfold runCli at he
  cases hp : parseAll Generated.methods g (names.map .builtin) with
  | ok cs =>
    rw [hp] at he
    simp only at he
    split at he
    · injection he with he; exact Or.inr he.symm
    · cases he
  | error e' =>
    rw [hp] at he
    injection he with he
    subst he
    left
    obtain ⟨pre, m, post, hms, -, hm⟩ := (parseAll_error_iff _ _ _ _).mp hp
    rcases RefusedAt_cases _ g m _ hm with ⟨h, -⟩ | ⟨t, hr, h⟩
    · exact h
    · exfalso
      have hmem' : m ∈ names.map MethodRef.builtin := by rw [hms]; simp
      obtain ⟨n, -, rfl⟩ := List.mem_map.mp hmem'
      obtain ⟨hmem, -⟩ := findMethod_ok_mem _ n t hr
      obtain ⟨cfg, -, hp', -⟩ := shipped_methods_guarantees g t hmem
      rw [hp'] at h; cases h

/-- "(… with and without a FASTA file)" for the shipped table: every shipped method, selected by name with its own
    input type and NO FASTA file, writes its table if it does not need the peptide → protein map and is refused with
    the missing-FASTA error if it does -/
theorem shipped_methods_without_fasta :
    ∀ m ∈ Generated.methods, ∃ cfg, parseMethod false m = .ok cfg ∧
      runCli Generated.methods false { matching cfg with map := false } [.builtin m.name] =
        if cfg.needsMap then .error .missingFasta else .ok ([cfg], [Outcome.table]) := by
  intro m hm
  obtain ⟨cfg, hp, -, -, -, hrun⟩ := shipped_methods_supported m hm
  refine ⟨cfg, hp, ?_⟩
  obtain ⟨hpa, -, hos⟩ := (runCli_ok_iff _ _ _ _ _ _).mp hrun
  unfold runCli
  rw [hpa]
  simp only [List.any_cons, List.any_nil, Bool.or_false, Bool.not_false, Bool.and_true]
  cases cfg.needsMap
  · simp only [Bool.false_eq_true, if_false]
    rw [runLoop_map_irrelevant (matching cfg) false [cfg], ← hos]
  · simp

/-! Non-vacuity for the refusal theorems: shipped methods of both kinds (needing / not needing the map); the
missing-FASTA refusal protein-level and gene-level; a run without a FASTA file that writes its table; custom files
refused for the missing score column and the missing proteinGroups file (no shipped file is); an unknown name after
a known one; the side conditions of `runCli_error_set` hold for the shipped table and cannot be dropped. -/

private def noFasta : Supplied := { everything with map := false }

private def mqProteinScore : MethodToml :=
  { name := "custom", label := some "MQ protein", scoreType := some "MQ_protein", grouping := some "subset",
    sharedPeptides := some "razor", pickedStrategy := some "classic" }

private def mqNativeGrouping : MethodToml :=
  { name := "custom", label := some "MQ native", scoreType := some "bestPEP", grouping := some "mq_native",
    sharedPeptides := some "razor", pickedStrategy := some "classic" }

example : ∃ m ∈ Generated.methods, (match parseMethod false m with | .ok c => c.needsMap | .error _ => false) = true := by
  decide +kernel
example : ∃ m ∈ Generated.methods, (match parseMethod false m with | .ok c => !c.needsMap | .error _ => false) = true := by
  decide +kernel

example : runCli Generated.methods false noFasta [.builtin "picked_protein_group"] = .error .missingFasta := by
  decide +kernel
example : runCli Generated.methods false everything [.builtin "picked_protein_group"] =
    .ok ([{ score := .bestPEP, origin := .percRemap, razor := false, withShared := false, grouping := .rescuedSubset,
            picked := .pickedGroup, label := "Picked Protein Group FDR" }], [.table]) := by decide +kernel
example : runCli Generated.methods false noFasta [.builtin "picked_protein_group_no_remap"] =
    .ok ([{ score := .bestPEP, origin := .perc, razor := false, withShared := false, grouping := .rescuedSubset,
            picked := .pickedGroup, label := "Picked Protein Group FDR" }], [.table]) := by decide +kernel
/-- gene-level with the pseudo-gene fallback every method needs the map -/
example : runCli Generated.methods true noFasta [.builtin "picked_protein_group_no_remap"] = .error .missingFasta := by
  decide +kernel
/-- the refusal comes after parsing: an unknown name wins over the missing FASTA file -/
example : runCli Generated.methods false noFasta [.builtin "picked_protein_group", .builtin "nope"] =
    .error .unknownMethod := by decide +kernel
example : "nope" ∉ Generated.methods.map (·.name) := by decide +kernel

example : (runCli Generated.methods false everything [.builtin "sage", .custom mqProteinScore, .builtin "diann"]).toOption.map
    (·.2) = some [.table, .abort .noScoreColumn] := by decide +kernel
example : (runCli Generated.methods false everything [.custom mqNativeGrouping]).toOption.map (·.2) =
    some [.abort .missingMqProteinGroups] := by decide +kernel
example : (runCli Generated.methods false { everything with mqGroups := true } [.custom mqNativeGrouping]).toOption.map
    (·.2) = some [.table] := by decide +kernel
example : (runCli Generated.methods false { everything with mq := false } [.custom mqNativeGrouping]).toOption.map
    (·.2) = some [.skipped] := by decide +kernel

example : Generated.methods.all wellTyped = true ∧
    [MethodRef.builtin "sage", .custom mqProteinScore].all MethodRef.wellTyped = true := by decide +kernel
/-- without the side condition another error is reachable: a custom file that lacks a key -/
example : runCli Generated.methods false everything [.custom { mqProteinScore with label := none }] =
    .error (.missingKey "label") := by decide +kernel

end PgFdr.C18
