import PgFdr.Props.C18
open PgFdr
#print axioms Pipeline.run_error_tags
#print axioms Pipeline.run_error_data_or_misfit
#print axioms Pipeline.run_protocol_error_misfit
#print axioms Pipeline.runPassFrom_eval
#print axioms Pipeline.run_single_pass_eval
#print axioms Pipeline.run_single_pass_ok_iff
#print axioms Pipeline.run_single_pass_error_iff
#print axioms Pipeline.rankable1_iff
#print axioms Pipeline.rankable1_discard_iff
#print axioms Pipeline.pass1_rows_nil_iff
#print axioms Pipeline.run_rescue_eval
#print axioms Pipeline.run_rescue_ok_iff
#print axioms Pipeline.run_rescue_error_iff
#print axioms Pipeline.fits1_of_run_ok
#print axioms Pipeline.fits2_of_run_ok
#print axioms Pipeline.passFits_iff
#print axioms Pipeline.demo1_hypotheses
#print axioms Pipeline.demo2_hypotheses
#print axioms Pipeline.demo_no_ranked
#print axioms Pipeline.demo_no_proteins
#print axioms C18.cli_shipped_method_is_inference_call
#print axioms C18.cli_shipped_single_pass_completes_iff
#print axioms C18.cli_shipped_rescue_completes_iff
#print axioms C18.cli_shipped_failure_is_data_or_misfit
