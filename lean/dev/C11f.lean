import PgFdr.Proofs.C11
namespace PgFdr.C11

/-! ### scaling the input -/

def scaleP (c : Rat) (p : Prec) : Prec := { p with intensity := c * p.intensity }

theorem keep_scaleP {c : Rat} (hc : 0 < c) (cut : Rat) (p : Prec) : keep cut (scaleP c p) = keep cut p := by
  unfold keep
  have h1 : pepOk cut (scaleP c p) = pepOk cut p := rfl
  rw [h1]
  congr 1
  have h : (0 < (scaleP c p).intensity) ↔ 0 < p.intensity := by
    show 0 < c * p.intensity ↔ 0 < p.intensity
    exact ⟨fun h => by by_contra hn; have := mul_nonpos_of_nonneg_of_nonpos hc.le (not_lt.mp hn); linarith,
      fun h => mul_pos hc h⟩
  simp only [h]

theorem sameGroup_scaleP (c : Rat) (a b : Prec) : sameGroup (scaleP c a) (scaleP c b) = sameGroup a b := rfl

theorem precLe_scaleP {c : Rat} (hc : 0 < c) (a b : Prec) : precLe (scaleP c a) (scaleP c b) = precLe a b := by
  rw [Bool.eq_iff_iff, precLe_iff, precLe_iff]
  unfold PrecLE LexStep
  simp only [scaleP]
  have h1 : c * b.intensity < c * a.intensity ↔ b.intensity < a.intensity :=
    ⟨fun h => lt_of_mul_lt_mul_left h hc.le, fun h => mul_lt_mul_of_pos_left h hc⟩
  have h2 : c * b.intensity = c * a.intensity ↔ b.intensity = a.intensity :=
    ⟨fun h => mul_left_cancel₀ hc.ne' h, fun h => by rw [h]⟩
  rw [h1, h2]

theorem firstsAux_map (f : Prec → Prec) (hf : ∀ a b, sameGroup (f a) (f b) = sameGroup a b) :
    ∀ (L : List Prec) (prev : Option Prec), firstsAux (prev.map f) (L.map f) = (firstsAux prev L).map f
  | [], prev => by cases prev <;> simp [firstsAux]
  | a :: r, none => by
    simp only [List.map_cons, Option.map_none, firstsAux]
    rw [← firstsAux_map f hf r (some a)]; rfl
  | a :: r, some q => by
    simp only [List.map_cons, Option.map_some, firstsAux, hf]
    split
    · exact firstsAux_map f hf r (some q)
    · rw [List.map_cons, ← firstsAux_map f hf r (some a)]; rfl

theorem isort_map_scaleP {c : Rat} (hc : 0 < c) (l : List Prec) :
    isort precLe (l.map (scaleP c)) = (isort precLe l).map (scaleP c) := by
  symm
  apply eq_isort_of_sorted precLe_trans precLe_total precLe_antisymm
  · exact (isort_perm precLe l).map _
  · rw [List.pairwise_map]
    exact (isort_sorted precLe_trans precLe_total l).imp (fun h => by rw [precLe_scaleP hc]; exact h)

/-- selection commutes with scaling all intensities by `c > 0` -/
theorem selected_scale {c : Rat} (hc : 0 < c) (cut : Rat) (l : List Prec) :
    selected cut (l.map (scaleP c)) = (selected cut l).map (scaleP c) := by
  unfold selected
  rw [List.filter_map]
  have : (keep cut ∘ scaleP c) = keep cut := by funext p; exact keep_scaleP hc cut p
  rw [this, isort_map_scaleP hc]
  exact firstsAux_map (scaleP c) (sameGroup_scaleP c) _ none

theorem sum_map_mul_left' (c : Rat) : ∀ l : List Rat, (l.map (fun x => c * x)).sum = c * l.sum
  | [] => by simp
  | a :: r => by simp [sum_map_mul_left' c r, mul_add]

theorem rowKeys_map_scaleP (c : Rat) (sel : List Prec) : rowKeys (sel.map (scaleP c)) = rowKeys sel := by
  unfold rowKeys; rw [List.map_map]; rfl

theorem cell_map_scaleP (c : Rat) (sel : List Prec) (k : String × Int) (s : Nat) :
    cell (sel.map (scaleP c)) k s = c * cell sel k s := by
  unfold cell
  rw [List.filter_map, List.map_map, ← sum_map_mul_left', List.map_map]
  rfl

theorem total_map_scaleP (c : Rat) (sel : List Prec) : total (sel.map (scaleP c)) = c * total sel := by
  unfold total
  rw [List.map_map, ← sum_map_mul_left', List.map_map]
  rfl

theorem column_map_scaleP (c : Rat) (sel : List Prec) (s : Nat) :
    column (sel.map (scaleP c)) s = (column sel s).map (fun x => c * x) := by
  unfold column
  rw [rowKeys_map_scaleP, List.map_map]
  exact List.map_congr_left (fun k _ => cell_map_scaleP c sel k s)

theorem nonzeros_scale {c : Rat} (hc : c ≠ 0) (col : List Rat) : nonzeros (col.map (fun x => c * x)) = nonzeros col := by
  unfold nonzeros
  rw [List.filter_map, List.length_map]
  congr 2
  funext x
  simp [Function.comp, hc]

theorem shared_scale {c : Rat} (hc : 0 < c) (ci cj : List Rat) :
    shared (ci.map (fun x => c * x)) (cj.map (fun x => c * x)) = shared ci cj := by
  unfold shared
  rw [List.zip_map, List.filter_map, List.length_map]
  congr 2
  funext ab
  simp only [Function.comp, Prod.map]
  have h : ∀ x : Rat, (0 < c * x) ↔ 0 < x := fun x =>
    ⟨fun h => by by_contra hn; have := mul_nonpos_of_nonneg_of_nonpos hc.le (not_lt.mp hn); linarith,
     fun h => mul_pos hc h⟩
  simp only [h]

theorem ratiosOf_scale {c : Rat} (hc : c ≠ 0) (ci cj : List Rat) :
    ratiosOf (ci.map (fun x => c * x)) (cj.map (fun x => c * x)) = ratiosOf ci cj := by
  unfold ratiosOf
  rw [List.zip_map, List.filterMap_map]
  congr 1
  funext ab
  have h1 : ∀ x : Rat, (c * x == 0) = (x == 0) := by
    intro x; rw [Bool.eq_iff_iff]; simp [hc]
  simp only [Function.comp, Prod.map, h1, mul_div_mul_left _ _ hc]

section ScaleCols
variable {c : Rat} (hc : 0 < c) {col col' : Nat → List Rat} (hcol : ∀ s, col' s = (col s).map (fun x => c * x))
include hc hcol

theorem validCol_scale (m s : Nat) : validCol m col' s = validCol m col s := by
  unfold validCol; rw [hcol, nonzeros_scale hc.ne']

theorem numValid_scale (m n : Nat) : numValid m n col' = numValid m n col := by
  unfold numValid
  congr 2
  funext s
  exact validCol_scale hc hcol m s

theorem pairOk_scale (m : Nat) (g : Option (List (Nat × Nat))) (ms nv i j : Nat) :
    pairOk m g ms nv col' i j = pairOk m g ms nv col i j := by
  unfold pairOk
  rw [validCol_scale hc hcol, validCol_scale hc hcol, hcol, hcol, shared_scale hc]

theorem pairs_scale (m n : Nat) (g : Option (List (Nat × Nat))) (ms : Nat) :
    pairs m n g ms col' = pairs m n g ms col := by
  unfold pairs
  rw [numValid_scale hc hcol]
  congr 1
  funext e
  exact pairOk_scale hc hcol m g ms _ e.1 e.2

theorem ratio_scale (i j : Nat) : ratio col' i j = ratio col i j := by
  unfold ratio; rw [hcol, hcol, ratiosOf_scale hc.ne']

end ScaleCols

theorem sumInt_scale (c cut : Rat) (l : List Prec) (s : Nat) :
    sumInt cut (l.map (scaleP c)) s = c * sumInt cut l s := by
  unfold sumInt
  rw [List.filter_map, List.map_map, ← sum_map_mul_left', List.map_map]
  rfl

theorem pepCount_scale (c cut : Rat) (l : List Prec) (s : Nat) :
    pepCount cut (l.map (scaleP c)) s = pepCount cut l s := by
  unfold pepCount
  rw [List.filter_map, List.map_map]
  rfl

theorem pairEq_scale {c : Rat} (hc : 0 < c) (stab : Bool) (cut : Rat) (l : List Prec)
    {col col' : Nat → List Rat} (hcol : ∀ s, col' s = (col s).map (fun x => c * x)) (e : Nat × Nat) :
    pairEq stab cut (l.map (scaleP c)) col' e = pairEq stab cut l col e := by
  unfold pairEq
  simp only [pepCount_scale, sumInt_scale, ratio_scale hc hcol, mul_div_mul_left _ _ hc.ne']

end PgFdr.C11
