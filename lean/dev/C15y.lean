import PgFdr.Proofs.C15
namespace PgFdr.C15

theorem indexOf?_get (name : String) : ∀ (l : List String) (i : Nat), indexOf? name l = some i → l[i]? = some name := by
  intro l
  induction l with
  | nil => intro i h; simp [indexOf?] at h
  | cons a t ih =>
    intro i h
    unfold indexOf? at h
    split at h
    · rename_i ha; simp at h; subst h; simp [ha]
    · cases ht : indexOf? name t with
      | none => rw [ht] at h; simp at h
      | some j =>
        rw [ht] at h; simp at h; subst h
        simpa using ih j ht

theorem indexOf?_ne (a b : String) (l : List String) (i j : Nat) (hab : a ≠ b)
    (ha : indexOf? a l = some i) (hb : indexOf? b l = some j) : i ≠ j := by
  intro hij
  subst hij
  have h1 := indexOf?_get a l i ha
  have h2 := indexOf?_get b l i hb
  rw [h1] at h2
  exact hab (Option.some.inj h2)

theorem colIdx_ok (hdr : Row) (name : String) (i : Nat) (h : colIdx hdr name = .ok i) : indexOf? name hdr = some i := by
  unfold colIdx at h
  cases hi : indexOf? name hdr with
  | none => rw [hi] at h; simp at h
  | some j => rw [hi] at h; simp at h; rw [h]

/-- the resolved columns, by name -/
theorem cols_ok (hdr : Row) (c : Cols) (h : cols hdr = .ok c) :
    indexOf? "score" hdr = some c.score ∧ indexOf? "pep" hdr = some c.pep ∧ indexOf? "raw file" hdr = some c.raw ∧
    (indexOf? "ms/ms scan number" hdr = some c.scan ∨ indexOf? "scan number" hdr = some c.scan) ∧
    indexOf? "modified sequence" hdr = some c.modSeq ∧ indexOf? "type" hdr = some c.idType ∧
    indexOf? "reverse" hdr = some c.reverse ∧ indexOf? "potential contaminant" hdr = some c.contaminant ∧
    c.labeling = indexOf? "labeling state" hdr := by
  unfold cols at h
  obtain ⟨score, h1, h⟩ := bind_ok _ _ _ h
  obtain ⟨pep, h2, h⟩ := bind_ok _ _ _ h
  obtain ⟨raw, h3, h⟩ := bind_ok _ _ _ h
  cases hm : indexOf? "ms/ms scan number" hdr with
  | some i =>
    simp only [hm] at h
    obtain ⟨scan, h4, h⟩ := bind_ok _ _ _ h
    obtain ⟨modSeq, h5, h⟩ := bind_ok _ _ _ h
    obtain ⟨idType, h6, h⟩ := bind_ok _ _ _ h
    obtain ⟨reverse, h7, h⟩ := bind_ok _ _ _ h
    obtain ⟨contaminant, h8, h⟩ := bind_ok _ _ _ h
    simp only [pure, Except.pure, Except.ok.injEq] at h h4
    subst h; subst h4
    exact ⟨colIdx_ok _ _ _ h1, colIdx_ok _ _ _ h2, colIdx_ok _ _ _ h3, Or.inl rfl, colIdx_ok _ _ _ h5, colIdx_ok _ _ _ h6,
      colIdx_ok _ _ _ h7, colIdx_ok _ _ _ h8, rfl⟩
  | none =>
    simp only [hm] at h
    obtain ⟨scan, h4, h⟩ := bind_ok _ _ _ h
    obtain ⟨modSeq, h5, h⟩ := bind_ok _ _ _ h
    obtain ⟨idType, h6, h⟩ := bind_ok _ _ _ h
    obtain ⟨reverse, h7, h⟩ := bind_ok _ _ _ h
    obtain ⟨contaminant, h8, h⟩ := bind_ok _ _ _ h
    simp only [pure, Except.pure, Except.ok.injEq] at h
    subst h
    exact ⟨colIdx_ok _ _ _ h1, colIdx_ok _ _ _ h2, colIdx_ok _ _ _ h3, Or.inr (colIdx_ok _ _ _ h4), colIdx_ok _ _ _ h5,
      colIdx_ok _ _ _ h6, colIdx_ok _ _ _ h7, colIdx_ok _ _ _ h8, rfl⟩

/-- the `Type` column is none of the columns the matching reads -/
theorem cols_type_distinct (hdr : Row) (c : Cols) (h : cols hdr = .ok c) :
    c.idType ≠ c.score ∧ c.idType ≠ c.pep ∧ c.idType ≠ c.raw ∧ c.idType ≠ c.scan ∧ c.idType ≠ c.modSeq ∧
    c.idType ≠ c.reverse ∧ c.idType ≠ c.contaminant ∧ c.labeling ≠ some c.idType := by
  obtain ⟨h1, h2, h3, h4, h5, h6, h7, h8, h9⟩ := cols_ok hdr c h
  refine ⟨indexOf?_ne _ _ hdr _ _ (by decide) h6 h1, indexOf?_ne _ _ hdr _ _ (by decide) h6 h2,
    indexOf?_ne _ _ hdr _ _ (by decide) h6 h3, ?_, indexOf?_ne _ _ hdr _ _ (by decide) h6 h5,
    indexOf?_ne _ _ hdr _ _ (by decide) h6 h7, indexOf?_ne _ _ hdr _ _ (by decide) h6 h8, ?_⟩
  · rcases h4 with h4 | h4
    · exact indexOf?_ne _ _ hdr _ _ (by decide) h6 h4
    · exact indexOf?_ne _ _ hdr _ _ (by decide) h6 h4
  · rw [h9]; intro hl
    exact indexOf?_ne _ _ hdr _ _ (by decide) h6 hl rfl

theorem field_set_ne (row : Row) (i j : Nat) (t : String) (h : i ≠ j) : field (row.set i t) j = field row j := by
  unfold field
  rw [List.getElem?_set_ne h]

theorem field_set_self_bind {β} (row : Row) (i : Nat) (t : String) (k : Except String β) :
    (field (row.set i t) i >>= fun _ => k) = (field row i >>= fun _ => k) := by
  unfold field
  by_cases hi : i < row.length
  · rw [List.getElem?_set_self (by simpa using hi)]
    have : row[i]? = some row[i] := List.getElem?_eq_getElem hi
    rw [this]; rfl
  · have h1 : row[i]? = none := by simp; omega
    have h2 : (row.set i t)[i]? = none := by simp; omega
    rw [h1, h2]

theorem checkLabeling_set (c : Cols) (row : Row) (i : Nat) (t : String) (h : c.labeling ≠ some i) :
    checkLabeling c (row.set i t) = checkLabeling c row := by
  unfold checkLabeling
  cases hl : c.labeling with
  | none => rfl
  | some l =>
    have : i ≠ l := by intro e; subst e; exact h hl
    simp only [List.getElem?_set_ne this]

/-- the classification and the lookup key of a row do not depend on its `Type` cell -/
theorem psmOf_set_type (hdr : Row) (c : Cols) (hc : cols hdr = .ok c) (row : Row) (t : String) :
    psmOf c (row.set c.idType t) = psmOf c row := by
  obtain ⟨d1, d2, d3, d4, d5, d6, d7, d8⟩ := cols_type_distinct hdr c hc
  unfold psmOf
  rw [field_set_ne _ _ _ _ d4, checkLabeling_set _ _ _ _ d8, field_set_ne _ _ _ _ d3, field_set_ne _ _ _ _ d1,
    field_set_ne _ _ _ _ d2, field_set_ne _ _ _ _ d5, field_set_ne _ _ _ _ d6, field_set_ne _ _ _ _ d7]
  congr 1; funext scanF
  congr 1; funext scan
  congr 1; funext _
  congr 1; funext raw
  congr 1; funext _
  congr 1; funext _
  congr 1; funext pepF
  congr 1; funext _
  congr 1; funext _
  exact field_set_self_bind row c.idType t _

theorem rule_set_other (res : Results) (sc pc i : Nat) (t : String) (row : Row) (p : Psm) (h1 : i ≠ sc) (h2 : i ≠ pc) :
    rule res sc pc (row.set i t) p = (rule res sc pc row p).map (fun r => r.set i t) := by
  unfold rule
  split
  · rfl
  · split
    · rfl
    · split
      · rfl
      · split
        · rfl
        · split
          · rfl
          · simp only [Option.map_some]
            rw [List.set_comm t _ h1, List.set_comm t _ h2]

end PgFdr.C15
