import PgFdr.DriverMain
import PgFdr.Driver.C18
import PgFdr.Driver.C07
import PgFdr.Driver.Cli
/-! Private driver for development of the command-line glue model: the handlers `./check C18` needs
(`method`, `methods_table`, `pipeline`) plus `cli`. -/
open PgFdr PgFdr.Driver
def main : IO Unit := runHandlers (handlersC18 ++ handlersC07 ++ handlersCli)
