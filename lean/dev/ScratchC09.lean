import PgFdr.Props.C09

namespace PgFdr.C09
open PgFdr.Generated PgFdr.C08

/-! ### SECTION-PROOFS -/

/-- the arguments `pepMapSingle` hands to `pepMapFile` for a parameter set whose enzyme is `r` -/
def argsOf (r : EnzymeRule) (p : Params) (parse : ParseId) : MapArgs :=
  { rule := r, db := p.db, minL := p.minL, maxL := p.maxL, mode := modeOf p.digestion, mc := p.mc, met := p.met,
    useHash := p.useHash, special := p.special, parse := parse }

/-- the database of several files under one parameter set: the records (targets and generated decoys) of the files
    in file order, inside a file in record order -/
def dbRecords (parse : ParseId) (p : Params) (files : List (List Str)) : List (Str × Str) :=
  files.flatMap (fun f => (readFasta p.db p.special parse f).1)

theorem pepMapSingle_args (parse : ParseId) (p : Params) (r : EnzymeRule) (hr : lookupEnzyme p.enzyme = some r)
    (lines : List Str) : pepMapSingle parse p lines = pepMapFile (argsOf r p parse) lines := by
  simp only [pepMapSingle, hr, argsOf]

theorem jobs_one (files : List (List Str)) (p : Params) : jobs files [p] = files.map (fun f => (f, p)) := by
  induction files with
  | nil => rfl
  | cons f files ih =>
    simp only [jobs, List.flatMap_cons, List.map_cons, List.map_nil, List.cons_append, List.nil_append] at ih ⊢
    rw [ih]

theorem setKey_of_not_mem (d : SeqMap) (k v : Str) (h : k ∉ d.map (·.1)) : setKey d k v = d ++ [(k, v)] := by
  induction d with
  | nil => rfl
  | cons hd r ih =>
    obtain ⟨a, w⟩ := hd
    simp only [List.map_cons, List.mem_cons, not_or] at h
    have hne : ¬ a = k := fun e => h.1 e.symm
    simp only [setKey, hne, if_false, List.cons_append]
    rw [ih h.2]

theorem foldl_setKey_append (tmp : SeqMap) : ∀ (acc : SeqMap), (acc.map (·.1) ++ tmp.map (·.1)).Nodup →
    tmp.foldl (fun d kv => setKey d kv.1 kv.2) acc = acc ++ tmp := by
  induction tmp with
  | nil => intro acc _; simp
  | cons hd r ih =>
    intro acc hnd
    obtain ⟨a, w⟩ := hd
    have ha : a ∉ acc.map (·.1) := by
      intro hmem
      have := (List.nodup_append.mp hnd).2.2 a hmem a (by simp)
      exact this rfl
    simp only [List.foldl_cons]
    rw [setKey_of_not_mem acc a w ha, ih]
    · simp
    · simpa [List.append_assoc] using hnd

/-- with identifiers that are new and pairwise distinct the record loop appends the records to the sequence map -/
theorem mapRecords_seqs_eq (a : MapArgs) : ∀ (recs : List (Str × Str)) (m : PMap) (sm : SeqMap) (res : PMap × SeqMap),
    mapRecords a recs (m, sm) = .ok res → (sm.map (·.1) ++ recs.map (·.1)).Nodup → res.2 = sm ++ recs := by
  intro recs
  induction recs with
  | nil =>
    intro m sm res h _
    simp only [mapRecords, Except.ok.injEq] at h
    subst h; simp
  | cons r recs ih =>
    intro m sm res h hnd
    obtain ⟨pid, seq⟩ := r
    simp only [mapRecords] at h
    split at h
    · simp at h
    · have hp : pid ∉ sm.map (·.1) := by
        intro hmem
        exact (List.nodup_append.mp hnd).2.2 pid hmem pid (by simp) rfl
      rw [setKey_of_not_mem sm pid seq hp] at h
      rw [ih _ _ _ h]
      · simp
      · simpa [List.append_assoc] using hnd

theorem fromParamsGo_jobs_ok (parse : ParseId) : ∀ (js : List (List Str × Params)) (acc : PMap × SeqMap)
    (res : PMap × SeqMap), fromParamsGo parse js acc = .ok res →
      ∀ j ∈ js, ∃ r, pepMapSingle parse j.2 j.1 = .ok r := by
  intro js
  induction js with
  | nil => intro _ _ _ j hj; cases hj
  | cons j0 js ih =>
    intro acc res h j hj
    obtain ⟨f, p⟩ := j0
    obtain ⟨m, sm⟩ := acc
    simp only [fromParamsGo] at h
    split at h
    · simp at h
    · rename_i tm tsm hs
      rcases List.mem_cons.mp hj with rfl | hj
      · exact ⟨_, hs⟩
      · exact ih _ _ h j hj

/-- the sequence map after the merge over several files with one hash-key parameter set -/
theorem fromParamsGo_seqs_eq (parse : ParseId) (p : Params) (r : EnzymeRule) (hr : lookupEnzyme p.enzyme = some r)
    (hh : p.useHash = true) : ∀ (files : List (List Str)) (m : PMap) (sm : SeqMap) (res : PMap × SeqMap),
    fromParamsGo parse (files.map (fun f => (f, p))) (m, sm) = .ok res →
    (sm.map (·.1) ++ (dbRecords parse p files).map (·.1)).Nodup → res.2 = sm ++ dbRecords parse p files := by
  intro files
  induction files with
  | nil =>
    intro m sm res h _
    simp only [List.map_nil, fromParamsGo, Except.ok.injEq] at h
    subst h; simp [dbRecords]
  | cons f files ih =>
    intro m sm res h hnd
    simp only [List.map_cons, fromParamsGo] at h
    split at h
    · simp at h
    · rename_i tm tsm hs
      simp only [hh, if_true] at h
      rw [pepMapSingle_args parse p r hr] at hs
      obtain ⟨hm, _⟩ := pepMapFile_ok _ _ _ hs
      have hdb : dbRecords parse p (f :: files) = (readFasta p.db p.special parse f).1 ++ dbRecords parse p files := by
        simp [dbRecords]
      rw [hdb] at hnd ⊢
      simp only [List.map_append] at hnd
      have hrecs : (readFasta (argsOf r p parse).db (argsOf r p parse).special (argsOf r p parse).parse f).1 =
          (readFasta p.db p.special parse f).1 := rfl
      rw [hrecs] at hm
      have htsm : tsm = (readFasta p.db p.special parse f).1 := by
        have := mapRecords_seqs_eq _ _ _ _ _ hm (by
          simp only [List.map_nil, List.nil_append]
          exact ((List.nodup_append.mp hnd).2.1.sublist (List.sublist_append_left _ _)))
        simpa using this
      subst htsm
      have hmerge : mergeSeqs sm (readFasta p.db p.special parse f).1 = sm ++ (readFasta p.db p.special parse f).1 := by
        unfold mergeSeqs
        apply foldl_setKey_append
        rw [← List.append_assoc] at hnd
        exact hnd.sublist (List.sublist_append_left _ _)
      rw [hmerge] at h
      rw [ih _ _ _ h]
      · simp
      · simpa [List.append_assoc] using hnd

theorem lookupSeq_of_mem (sm : SeqMap) (hnd : (sm.map (·.1)).Nodup) (r : Str × Str) (hr : r ∈ sm) :
    lookupSeq sm r.1 = some r.2 := by
  induction sm with
  | nil => cases hr
  | cons hd t ih =>
    simp only [List.map_cons, List.nodup_cons] at hnd
    rcases List.mem_cons.mp hr with rfl | hr
    · simp [lookupSeq, List.find?]
    · have hne : ¬ hd.1 = r.1 := by
        intro e
        exact hnd.1 (e ▸ List.mem_map.mpr ⟨r, hr, rfl⟩)
      have := ih hnd.2 hr
      simp only [lookupSeq] at this ⊢
      simp only [List.find?, hne, decide_false]
      exact this

/-- the merged map of several files under ONE parameter set, entry by entry: the identifiers, in database order,
    of the records whose digest yields the key -/
theorem fromParams_one_get (parse : ParseId) (files : List (List Str)) (p : Params) (r : EnzymeRule)
    (hr : lookupEnzyme p.enzyme = some r) (res : PMap × SeqMap) (h : fromParams parse files [p] = .ok res) (k : Str) :
    get res.1 k =
      ((dbRecords parse p files).filter (fun x => decide (k ∈ keysOf (argsOf r p parse) x.2))).map (·.1) := by
  have hjobs := jobs_one files p
  have hget := fromParamsGo_spec parse (jobs files [p]) [] [] res h k
  have hok := fromParamsGo_jobs_ok parse _ _ _ h
  rw [hjobs] at hget hok
  rw [hget]
  simp only [get, List.nil_append, dbRecords]
  clear hget h hjobs
  induction files with
  | nil => simp
  | cons f files ih =>
    simp only [List.map_cons, List.flatMap_cons, List.filter_append, List.map_append]
    rw [ih (fun j hj => hok j (List.mem_cons_of_mem _ hj))]
    congr 1
    obtain ⟨r1, hr1⟩ := hok (f, p) (by simp)
    simp only at hr1
    simp only [jobEntry, hr1]
    rw [pepMapSingle_args parse p r hr] at hr1
    obtain ⟨hm, _⟩ := pepMapFile_ok _ _ _ hr1
    have := (mapRecords_spec _ _ _ _ _ hm).1 k
    simp only [get, List.nil_append] at this
    exact this

/-- without a known enzyme only the empty file list gets through -/
theorem fromParams_one_no_enzyme (parse : ParseId) (files : List (List Str)) (p : Params)
    (hr : lookupEnzyme p.enzyme = none) (res : PMap × SeqMap) (h : fromParams parse files [p] = .ok res) :
    files = [] ∧ res = ([], []) := by
  cases files with
  | nil =>
    simp only [fromParams, jobs, List.flatMap_nil, fromParamsGo, Except.ok.injEq] at h
    exact ⟨rfl, h.symm⟩
  | cons f files =>
    simp only [fromParams, jobs, List.flatMap_cons, List.map_cons, List.map_nil, List.cons_append, List.nil_append,
      fromParamsGo, pepMapSingle, hr] at h
    cases h

/-! ### SECTION-PROPS -/

/-- "the peptide-to-protein map lists for each peptide exactly the … proteins … whose digestion yields that
    peptide … in database order", for SEVERAL FASTA files and one digestion parameter set (what
    `get_peptide_to_protein_map_from_params` returns): the merged entry of `k` is the list of identifiers of the
    records of all files — file order, then record order inside a file — whose digest contains `k` -/
theorem map_exact_files (parse : ParseId) (files : List (List Str)) (p : Params) (r : EnzymeRule)
    (hr : lookupEnzyme p.enzyme = some r) (res : PMap × SeqMap) (h : fromParams parse files [p] = .ok res) (k : Str) :
    get res.1 k =
      ((dbRecords parse p files).filter (fun x => decide (k ∈ keysOf (argsOf r p parse) x.2))).map (·.1) :=
  fromParams_one_get parse files p r hr res h k

/-- "For FASTA files with distinct identifiers … each once and in database order", for several files and one
    parameter set: when the identifiers are distinct across all the files, no protein is listed twice for a peptide
    in the merged map, and every entry is a sub-sequence of the identifier list of the database (file order, then
    record order) -/
theorem map_nodup_db_order_files (parse : ParseId) (files : List (List Str)) (p : Params) (res : PMap × SeqMap)
    (h : fromParams parse files [p] = .ok res)
    (hd : ((dbRecords parse p files).map (·.1)).Nodup) (k : Str) :
    (get res.1 k).Nodup ∧ (get res.1 k).Sublist ((dbRecords parse p files).map (·.1)) := by
  cases hr : lookupEnzyme p.enzyme with
  | none =>
    obtain ⟨-, hres⟩ := fromParams_one_no_enzyme parse files p hr res h
    subst hres
    simp [get]
  | some r =>
    rw [fromParams_one_get parse files p r hr res h k]
    have hs : (((dbRecords parse p files).filter (fun x => decide (k ∈ keysOf (argsOf r p parse) x.2))).map (·.1)).Sublist
        ((dbRecords parse p files).map (·.1)) := (List.filter_sublist).map _
    exact ⟨hs.nodup hd, hs⟩

/-- "for non-specific searches the lookup returns exactly the proteins whose sequence contains the peptide", for
    the object every pipeline path hands to `get_proteins`: the result of
    `get_peptide_to_protein_map_from_params` over several FASTA files with one non-specific (hash-key) parameter
    set.  With identifiers distinct across the files, the lookup of a peptide whose length lies within the window
    succeeds and returns (sorted, so: a permutation of) the identifiers of exactly the records of the database
    whose sequence contains the peptide as a substring. -/
theorem get_proteins_nonspecific_merged (parse : ParseId) (files : List (List Str)) (p : Params)
    (res : PMap × SeqMap) (h : fromParams parse files [p] = .ok res)
    (hmode : modeOf p.digestion = .none) (hhash : p.useHash = true)
    (hd : ((dbRecords parse p files).map (·.1)).Nodup)
    (pep : Str) (hlo : p.minL ≤ pep.length) (hhi : pep.length ≤ p.maxL) :
    ∃ l, getProteins res pep = .ok l ∧
      l.Perm (((dbRecords parse p files).filter (fun r => containsSub pep r.2)).map (·.1)) ∧
      ∀ pid, pid ∈ l ↔ ∃ seq, (pid, seq) ∈ dbRecords parse p files ∧ ∃ pre suf, seq = pre ++ pep ++ suf := by
  cases hr : lookupEnzyme p.enzyme with
  | none =>
    obtain ⟨hf, hres⟩ := fromParams_one_no_enzyme parse files p hr res h
    subst hf hres
    exact ⟨[], by simp [getProteins, get], by simp [dbRecords], by simp [dbRecords]⟩
  | some r =>
    have hget := fromParams_one_get parse files p r hr res h (pep.take 6)
    have hjobs := jobs_one files p
    have hseq : res.2 = dbRecords parse p files := by
      unfold fromParams at h
      rw [hjobs] at h
      have := fromParamsGo_seqs_eq parse p r hr hhash files [] [] res h (by simpa using hd)
      simpa using this
    have hget2 := fromParams_one_get parse files p r hr res h pep
    generalize dbRecords parse p files = recs at hget hget2 hseq hd
    have hkey : ∀ x : Str × Str, containsSub pep x.2 = true → pep.take 6 ∈ keysOf (argsOf r p parse) x.2 := by
      intro x hx
      obtain ⟨pre, suf, hseq'⟩ := (containsSub_iff pep x.2).mp hx
      have hk : keysOf (argsOf r p parse) x.2 = (nonSpecific x.2 p.minL p.maxL).map (hashKey true) := by
        simp [keysOf, digestPeptides, argsOf, hmode, hhash]
      rw [hk, List.mem_map]
      refine ⟨pep, ?_, by simp [hashKey]⟩
      rw [mem_nonSpecific]
      refine ⟨pre.length, pre.length + pep.length, by omega, by omega, ?_, ?_⟩
      · rw [hseq']; simp
      · rw [hseq']; exact (slice_of_append pre pep suf).symm
    have hfilter : ((recs.filter (fun x => decide (pep.take 6 ∈ keysOf (argsOf r p parse) x.2))).filter (fun x => containsSub pep x.2)) =
        recs.filter (fun x => containsSub pep x.2) := by
      rw [List.filter_filter]
      apply List.filter_congr
      intro x _
      cases hc : containsSub pep x.2
      · simp
      · simp [hkey x hc]
    have hconf : confirm res.2 pep (get res.1 (pep.take 6)) =
        .ok ((recs.filter (fun x => containsSub pep x.2)).map (·.1)) := by
      rw [hget, hseq]
      rw [confirm_spec recs pep _ (fun x hx => lookupSeq_of_mem recs hd x (List.mem_filter.mp hx).1), hfilter]
    have hmemchar : ∀ pid, pid ∈ (recs.filter (fun x => containsSub pep x.2)).map (·.1) ↔
        ∃ seq, (pid, seq) ∈ recs ∧ ∃ pre suf, seq = pre ++ pep ++ suf := by
      intro pid
      simp only [List.mem_map, List.mem_filter]
      constructor
      · rintro ⟨x, ⟨hx, hc⟩, rfl⟩
        exact ⟨x.2, hx, (containsSub_iff pep x.2).mp hc⟩
      · rintro ⟨seq, hx, hc⟩
        exact ⟨(pid, seq), ⟨hx, (containsSub_iff pep seq).mpr hc⟩, rfl⟩
    cases hrecs : recs with
    | nil =>
      subst hrecs
      have h1 : get res.1 pep = [] := by simpa using hget2
      refine ⟨[], ?_, by simp, by simp⟩
      simp [getProteins, hseq, h1]
    | cons r0 rest =>
      refine ⟨sortStrs ((recs.filter (fun x => containsSub pep x.2)).map (·.1)), ?_, ?_, ?_⟩
      · unfold getProteins
        cases h2 : res.2 with
        | nil => rw [hseq, hrecs] at h2; cases h2
        | cons x xs =>
          simp only
          rw [← h2, hconf]
      · rw [← hrecs]; exact sortStrs_perm _
      · intro pid
        rw [(sortStrs_perm _).mem_iff, hmemchar, hrecs]

/-! Non-vacuity for the several-file theorems: two FASTA files (`>P2 AAKC`, `>P1 KCA`), one non-specific parameter
set with window 2–4 (hash keys, mode `none`): the database is the two records in file order with distinct
identifiers, the merged object is a (map, sequences) pair, the entry of the hash key `KC` is in database order, and
the lookup of `KC` returns both proteins, sorted; `AAK` is found in `P2` only. -/

private def exNsParams : Params := mkParams "trypsin" "none" 2 4 0 "KR" true
private def exNsFiles : List (List Str) := [[">P2 second".toList, "AAKC".toList], [">P1".toList, "KCA".toList]]

example : modeOf exNsParams.digestion = .none ∧ exNsParams.useHash = true ∧
    dbRecords .firstSpace exNsParams exNsFiles = [("P2".toList, "AAKC".toList), ("P1".toList, "KCA".toList)] ∧
    ((dbRecords .firstSpace exNsParams exNsFiles).map (·.1)).Nodup := by decide

example : (fromParams .firstSpace exNsFiles [exNsParams]).toOption.map (fun res => get res.1 "KC".toList) =
    some ["P2".toList, "P1".toList] := by decide
example : (fromParams .firstSpace exNsFiles [exNsParams]).toOption.map (·.2) =
    some [("P2".toList, "AAKC".toList), ("P1".toList, "KCA".toList)] := by decide
example : (fromParams .firstSpace exNsFiles [exNsParams]).toOption.map
      (fun res => (getProteins res "KC".toList).toOption) = some (some ["P1".toList, "P2".toList]) := by decide
example : (fromParams .firstSpace exNsFiles [exNsParams]).toOption.map
      (fun res => (getProteins res "AAK".toList).toOption) = some (some ["P2".toList]) := by decide

end PgFdr.C09
