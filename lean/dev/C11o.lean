import PgFdr.Proofs.C11
namespace PgFdr.C11

/-! ### stage B under relabelling and under flipping the orientation of a pair -/

/-- the same equation with the two samples exchanged: inverse ratios -/
def flipEq (q : PairEq) : PairEq :=
  { i := q.j, j := q.i, ratio := q.ratio⁻¹, w := q.w, sratio := q.sratio⁻¹ }

def relabelEq (σ : Nat → Nat) (q : PairEq) : PairEq := { q with i := σ q.i, j := σ q.j }

theorem rhs_flipEq (q : PairEq) : rhs (flipEq q) = - rhs q := by
  unfold rhs flipEq
  simp only [Rat.cast_inv, Real.log_inv]
  ring

theorem rhs_relabelEq (σ : Nat → Nat) (q : PairEq) : rhs (relabelEq σ q) = rhs q := rfl

/-- flipping an equation does not change its squared residual -/
theorem residual_flipEq (q : PairEq) (y : Nat → ℝ) :
    (y (flipEq q).i - y (flipEq q).j - rhs (flipEq q)) ^ 2 = (y q.i - y q.j - rhs q) ^ 2 := by
  rw [rhs_flipEq]
  show (y q.j - y q.i - -rhs q) ^ 2 = _
  ring

/-- the objective does not depend on the orientation in which each pair is written, as long as the
    flipped pair carries the inverse ratios -/
theorem objective_flip (eqs : List PairEq) (flip : PairEq → Bool) (sys : System) (y : Nat → ℝ) :
    objective (eqs.map (fun q => if flip q then flipEq q else q)) sys y = objective eqs sys y := by
  unfold objective
  rw [List.map_map]
  congr 3
  apply List.map_congr_left
  intro q _
  simp only [Function.comp]
  split
  · exact residual_flipEq q y
  · rfl

/-- the objective does not depend on the order of the equations -/
theorem objective_perm {eqs eqs' : List PairEq} (h : eqs.Perm eqs') (sys : System) (y : Nat → ℝ) :
    objective eqs sys y = objective eqs' sys y := by
  unfold objective
  rw [(h.map _).sum_eq]

def relabelSys (σ : Nat → Nat) (sys : System) : System :=
  { pairs := sys.pairs.map (fun e => (σ e.1, σ e.2)), seen := sys.seen.map σ, zeroCols := sys.zeroCols.map σ }

/-- relabelling the samples: the objective of the relabelled system at the relabelled vector is the
    objective of the original system -/
theorem objective_relabel (σ : Nat → Nat) (eqs : List PairEq) (sys : System) (y y' : Nat → ℝ)
    (hy : ∀ s, y' (σ s) = y s) :
    objective (eqs.map (relabelEq σ)) (relabelSys σ sys) y' = objective eqs sys y := by
  unfold objective relabelSys
  simp only [List.map_map]
  congr 2
  · congr 1
    apply List.map_congr_left
    intro q _
    simp only [Function.comp, relabelEq, hy]
    rfl
  · congr 2
    apply List.map_congr_left
    intro s _
    simp only [Function.comp, hy]
  · apply List.map_congr_left
    intro s _
    simp only [Function.comp, hy]

end PgFdr.C11
