import PgFdr.DriverMain
import PgFdr.Driver.C12
import PgFdr.Driver.C17
import PgFdr.Driver.Cli
/-! Private driver for development of the quantification command-line model: the handlers `./check C12` needs
(`quant`, the C17 ops) plus `cli` / `cli_quant`. -/
open PgFdr PgFdr.Driver
def main : IO Unit := runHandlers (handlersC12 ++ handlersC17 ++ handlersCli)
