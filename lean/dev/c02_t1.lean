import PgFdr.Model.Basic
open PgFdr
example : cleanProteinId "OBSOLETE__REV__A" = "A" := by decide +kernel
example : isContaminant ["CON__A"] = true := by decide +kernel
example : ("A" < "B") := by decide +kernel
example : (joinWith ";" ["A","B"]) = "A;B" := by decide +kernel
example : cleanProteinId "OBSOLETE__REV__A" = "A" := by decide
example : cleanProteinId "OBSOLETE__REV__A" = "A" := by rfl
