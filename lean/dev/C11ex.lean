import PgFdr.Props.C11
namespace PgFdr.C11

/-! ## Non-vacuity: concrete inputs meeting the hypotheses

Three samples with sample factors `g = (10, 20, 40)`, two peptides with factors `f = (1, 3)`; the list
also holds a duplicate precursor of lower intensity (dropped by the selection), a match-between-runs
precursor (NaN PEP, kept) and an unidentified one (PEP above the cutoff, dropped). -/

private def exL : List Prec := [
  ⟨"PEPB", 2, 2, -1, 120, some (1/1000)⟩, ⟨"PEPA", 2, 0, -1, 10, some (1/1000)⟩,
  ⟨"PEPA", 2, 1, -1, 20, some (1/1000)⟩, ⟨"PEPA", 2, 2, -1, 40, none⟩,
  ⟨"PEPB", 2, 0, -1, 30, some (1/1000)⟩, ⟨"PEPB", 2, 1, -1, 60, some (1/1000)⟩,
  ⟨"PEPB", 2, 2, -1, 7, some (1/10000)⟩, ⟨"PEPA", 2, 0, -1, 99, some (1/2)⟩]

private def exO : Opts :=
  { n := 3, cutoff := 1/100, minRatios := 2, stab := false, graph := none, minSamples := 10 }

private def exF : String × Int → Rat := fun k => if k = ("PEPA", 2) then 1 else 3
private def exG : Nat → Rat := fun s => if s = 0 then 10 else if s = 1 then 20 else 40

private theorem exF_ne (k : String × Int) : exF k ≠ 0 := by unfold exF; split <;> norm_num
private theorem exG_pos (s : Nat) : 0 < exG s := by unfold exG; split_ifs <;> norm_num

/-- stage A on the example: selection drops the duplicate and the unidentified precursor -/
private theorem ex_stageA : stageA exO exL =
    { keys := [("PEPA", 2), ("PEPB", 2)], cols := [[10, 30], [20, 60], [40, 120]], total := 280,
      validCols := [0, 1, 2],
      eqs := [⟨0, 1, 1/2, 0, 1⟩, ⟨0, 2, 1/4, 0, 1⟩, ⟨1, 2, 1/2, 0, 1⟩],
      system := { pairs := [(0, 1), (0, 2), (1, 2)], seen := [0, 1, 2], zeroCols := [] } } := by
  decide +kernel

/-- `selection_perm_invariant` on a genuinely different order -/
example : exL.reverse ≠ exL ∧ stageA exO exL.reverse = stageA exO exL :=
  ⟨by decide, selection_perm_invariant exO (List.reverse_perm _)⟩

/-- `selected_best_per_group`: the duplicate `PEPB` precursor of intensity 7 is in the list, identified
    and quantified, but not selected (120 is) -/
example : (⟨"PEPB", 2, 2, -1, 7, some (1/10000)⟩ : Prec) ∈ exL ∧
    keep (1/100) ⟨"PEPB", 2, 2, -1, 7, some (1/10000)⟩ = true ∧
    (⟨"PEPB", 2, 2, -1, 7, some (1/10000)⟩ : Prec) ∉ selected (1/100) exL ∧
    (⟨"PEPB", 2, 2, -1, 120, some (1/1000)⟩ : Prec) ∈ selected (1/100) exL := by decide +kernel

/-- `lfq_sample_equivariant`: the swap of samples 0 and 2 meets the hypotheses -/
private def exσ : Nat → Nat := fun s => if s = 0 then 2 else if s = 2 then 0 else s

private theorem exσ_inj : Function.Injective exσ := by
  intro a b h; unfold exσ at h; split_ifs at h <;> omega

example : ((List.range 3).map exσ).Perm (List.range 3) := by decide

example : column (selected (1/100) (exL.map (relabel exσ))) 2 = column (selected (1/100) exL) 0 :=
  (lfq_sample_equivariant exσ_inj (n := 3) (by decide) (1/100) 2 none 10 exL).1 0

/-- the orientation of a pair matters for an even number of shared peptides: the median of the ratios
    1 and 4 is 5/2, the median of the inverse ratios is 5/8, not 2/5 (known finding
    `lfq-even-median-orientation`); `ratio_antisymm_of_odd` needs its parity hypothesis -/
example : median [1, 4] = 5/2 ∧ median [1, 1/4] = 5/8 ∧ (5/8 : Rat) ≠ (5/2)⁻¹ := by decide +kernel

/-- `ratio_antisymm_of_odd`: three shared peptides -/
example : shared [1, 4, 9] [1, 1, 2] % 2 = 1 ∧ median (ratiosOf [1, 4, 9] [1, 1, 2]) = 4 ∧
    median (ratiosOf [1, 1, 2] [1, 4, 9]) = 1/4 := by decide +kernel

/-- `lfq_scales` with c = 3 -/
example : (stageA exO (exL.map (scaleP 3))).total = 840 ∧
    (stageA exO (exL.map (scaleP 3))).eqs = (stageA exO exL).eqs := by
  rw [lfq_scales (by norm_num : (0 : Rat) < 3) exO exL, ex_stageA]
  exact ⟨by norm_num, rfl⟩

/-- `sum_preserved`: a solution proportional to (1, 2, 4) -/
example : (∀ s, (0 : Rat) ≤ (fun s => if s = 0 then 1 else if s = 1 then 2 else 4) s) ∧
    (∃ s, s < 3 ∧ 0 < lfq 3 [] (280 : Rat) (fun s => if s = 0 then 1 else if s = 1 then 2 else 4) s) ∧
    lfq 3 [] (280 : Rat) (fun s => if s = 0 then 1 else if s = 1 then 2 else 4) 2 = 160 := by
  refine ⟨fun s => by simp only; split_ifs <;> norm_num, ⟨0, by decide, by decide +kernel⟩, by decide +kernel⟩

/-- `unconnected_zero`: sample 3 of 4 occurs in no pair -/
example : (buildSystem 4 [(0, 1), (1, 2)]).zeroCols = [3] ∧
    lfq 4 (buildSystem 4 [(0, 1), (1, 2)]).zeroCols (100 : Rat) (fun _ => 7) 3 = 0 := by decide +kernel

/-- the example data is consistent with `f`, `g` (hypothesis of `median_consistent`, `consistent_lfq`) -/
private theorem ex_consistent : ∀ k ∈ rowKeys (selected exO.cutoff exL), ∀ s, s < exO.n →
    cell (selected exO.cutoff exL) k s = 0 ∨ cell (selected exO.cutoff exL) k s = exF k * exG s := by
  decide +kernel

example : ratio (column (selected (1/100) exL)) 0 2 = exG 0 / exG 2 :=
  median_consistent _ 3 exF exG exF_ne 0 2 (by decide) (by decide) ex_consistent (by decide +kernel)

private theorem ex_linked : ∀ s, s < exO.n → Linked (stageA exO exL).eqs 0 s := by
  intro s hs
  rw [ex_stageA]
  have h3 : s < 3 := hs
  obtain rfl | rfl | rfl : s = 0 ∨ s = 1 ∨ s = 2 := by omega
  · exact Relation.ReflTransGen.refl
  · exact Relation.ReflTransGen.single ⟨⟨0, 1, 1/2, 0, 1⟩, by simp, Or.inl ⟨rfl, rfl⟩⟩
  · exact Relation.ReflTransGen.single ⟨⟨0, 2, 1/4, 0, 1⟩, by simp, Or.inl ⟨rfl, rfl⟩⟩

/-- `consistent_recovery` / `consistent_lfq`: a least-squares solution exists for the example (the centred
    logarithms of `g`), all samples are linked, and the conclusion is `lfq = 280 · g / 70 = (40, 80, 160)` -/
example : ∃ y : Nat → ℝ, IsLeastSquares (stageA exO exL).eqs (stageA exO exL).system y ∧
    ∀ s, s < 3 → lfq 3 (stageA exO exL).system.zeroCols (((stageA exO exL).total : Rat) : ℝ)
      (fun t => Real.exp (y t)) s = (((stageA exO exL).total : Rat) : ℝ) * (exG s : ℝ) / vsum 3 (fun t => (exG t : ℝ)) := by
  have hcons := rhs_of_consistent exO exL rfl (by decide) exF exG exF_ne exG_pos ex_consistent
  have hlt : ∀ q ∈ (stageA exO exL).eqs, q.i < exO.n ∧ q.j < exO.n := by
    intro q hq; have := stageA_eq_mem exO exL q hq; omega
  have hls : IsLeastSquares (stageA exO exL).eqs (stageA exO exL).system
      (centred (stageA exO exL).system (fun t => Real.log (exG t : ℝ))) := by
    rw [stageA_system]
    exact centred_isLeastSquares exO.n _ hlt (fun t => Real.log (exG t : ℝ)) hcons
  exact ⟨_, hls, fun s hs => consistent_lfq exO exL (by decide) rfl (by decide) exF exG exF_ne exG_pos
    ex_consistent _ hls 0 ex_linked s hs⟩

end PgFdr.C11
