import PgFdr.DriverMain
import PgFdr.Driver.C12
/-! Private single-property driver for development:
    `PGFDR_DRIVER_CMD="lake env lean --run dev/DriverC12.lean" ./check C12` -/
def main : IO Unit := PgFdr.runHandlers PgFdr.Driver.handlersC12
