import PgFdr.DriverMain
import PgFdr.Driver.C13
/-! Private single-property driver for development:
    `PGFDR_DRIVER_CMD="lake env lean --run dev/DriverC13.lean" ./check C13`
    (interpreted; lets you work while another property's handler file does not compile). -/
def main : IO Unit := PgFdr.runHandlers PgFdr.Driver.handlersC13
