import PgFdr.Proofs.C11
import Mathlib.Data.List.Nodup
namespace PgFdr.C11

theorem precLe_refl (a : Prec) : precLe a a = true := by
  rcases precLe_total a a with h | h <;> exact h

theorem sorted_kept (c : Rat) (l : List Prec) :
    (isort precLe (l.filter (keep c))).Pairwise (fun x y => precLe x y = true) :=
  isort_sorted precLe_trans precLe_total _

theorem mem_sorted_kept (c : Rat) (l : List Prec) (p : Prec) :
    p ∈ isort precLe (l.filter (keep c)) ↔ p ∈ l ∧ keep c p = true := by
  rw [(isort_perm precLe _).mem_iff, List.mem_filter]

/-- specification of the selection: the precursors used are exactly the `orderByPEP`-least
    identified, quantified precursors of their (peptide, charge, experiment, fraction) group -/
theorem mem_selected (c : Rat) (l : List Prec) (p : Prec) :
    p ∈ selected c l ↔ (p ∈ l ∧ keep c p = true) ∧
      ∀ q, q ∈ l → keep c q = true → sameGroup p q = true → precLe p q = true := by
  unfold selected
  rw [mem_firstsAux _ none (sorted_kept c l) (by intro q hq; cases hq), mem_sorted_kept]
  constructor
  · rintro ⟨h1, _, h3⟩
    exact ⟨h1, fun q hq hk => h3 q ((mem_sorted_kept c l q).mpr ⟨hq, hk⟩)⟩
  · rintro ⟨h1, h3⟩
    refine ⟨h1, ?_, fun x hx => ?_⟩
    · intro q hq; cases hq
    · have := (mem_sorted_kept c l x).mp hx
      exact h3 x this.1 this.2

theorem firstsAux_pairwise : ∀ (L : List Prec) (prev : Option Prec),
    L.Pairwise (fun x y => precLe x y = true) →
    (∀ q, prev = some q → ∀ x ∈ L, precLe q x = true) →
    (firstsAux prev L).Pairwise (fun x y => sameGroup x y = false)
  | [], prev, _, _ => by cases prev <;> simp [firstsAux]
  | a :: r, prev, hs, hprev => by
    have hs' := List.pairwise_cons.mp hs
    have hprev_a : ∀ q, some a = some q → ∀ x ∈ r, precLe q x = true := by
      intro q hq x hx; cases hq; exact hs'.1 x hx
    have take : ((a :: firstsAux (some a) r).Pairwise (fun x y => sameGroup x y = false)) := by
      refine List.pairwise_cons.mpr ⟨?_, firstsAux_pairwise r (some a) hs'.2 hprev_a⟩
      intro x hx
      exact ((mem_firstsAux r (some a) hs'.2 hprev_a x).mp hx).2.1 a rfl
    cases prev with
    | none => simpa only [firstsAux] using take
    | some q =>
      simp only [firstsAux]
      by_cases hqa : sameGroup q a = true
      · simp only [hqa, if_true]
        exact firstsAux_pairwise r (some q) hs'.2
          (by intro q' hq' x hx; cases hq'; exact hprev q rfl x (List.mem_cons_of_mem _ hx))
      · simp only [hqa]; exact take

theorem selected_pairwise (c : Rat) (l : List Prec) :
    (selected c l).Pairwise (fun x y => sameGroup x y = false) :=
  firstsAux_pairwise _ none (sorted_kept c l) (by intro q hq; cases hq)

theorem selected_nodup (c : Rat) (l : List Prec) : (selected c l).Nodup := by
  refine (selected_pairwise c l).imp ?_
  intro a b h hab
  rw [hab, sameGroup_refl] at h; exact absurd h (by simp)

/-- precursor order does not matter (sorting canonicalises it) -/
theorem selected_perm {l l' : List Prec} (c : Rat) (h : l.Perm l') : selected c l = selected c l' := by
  unfold selected
  rw [isort_congr precLe_trans precLe_total precLe_antisymm (h.filter _)]

/-! ### relabelling the samples -/

def relabel (σ : Nat → Nat) (p : Prec) : Prec := { p with exp := σ p.exp }

theorem keep_relabel (σ : Nat → Nat) (c : Rat) (p : Prec) : keep c (relabel σ p) = keep c p := rfl
theorem pepOk_relabel (σ : Nat → Nat) (c : Rat) (p : Prec) : pepOk c (relabel σ p) = pepOk c p := rfl

theorem relabel_injective {σ : Nat → Nat} (hσ : Function.Injective σ) : Function.Injective (relabel σ) := by
  intro a b h
  cases a; cases b
  simp only [relabel, Prec.mk.injEq] at h ⊢
  exact ⟨h.1, h.2.1, hσ h.2.2.1, h.2.2.2⟩

theorem sameGroup_relabel {σ : Nat → Nat} (hσ : Function.Injective σ) (a b : Prec) :
    sameGroup (relabel σ a) (relabel σ b) = sameGroup a b := by
  rw [Bool.eq_iff_iff, sameGroup_iff, sameGroup_iff]
  simp only [relabel]
  constructor
  · rintro ⟨h1, h2, h3, h4⟩; exact ⟨h1, h2, hσ h3, h4⟩
  · rintro ⟨h1, h2, h3, h4⟩; exact ⟨h1, h2, by rw [h3], h4⟩

theorem precLe_relabel_of_sameGroup (σ : Nat → Nat) {a b : Prec} (h : sameGroup a b = true) :
    precLe (relabel σ a) (relabel σ b) = precLe a b := by
  rw [sameGroup_iff] at h
  obtain ⟨_, _, h3, _⟩ := h
  simp [precLe, relabel, h3]

/-- selection commutes with relabelling the samples, up to the order of the list -/
theorem selected_relabel {σ : Nat → Nat} (hσ : Function.Injective σ) (c : Rat) (l : List Prec) :
    (selected c (l.map (relabel σ))).Perm ((selected c l).map (relabel σ)) := by
  rw [List.perm_ext_iff_of_nodup (selected_nodup _ _) (List.Nodup.map (relabel_injective hσ) (selected_nodup c l))]
  intro p'
  constructor
  · intro h
    obtain ⟨⟨hp', hk⟩, hmin⟩ := (mem_selected _ _ _).mp h
    obtain ⟨p, hp, rfl⟩ := List.mem_map.mp hp'
    refine List.mem_map.mpr ⟨p, (mem_selected c l p).mpr ⟨⟨hp, hk⟩, ?_⟩, rfl⟩
    intro q hq hkq hg
    have := hmin (relabel σ q) (List.mem_map_of_mem hq) hkq (by rw [sameGroup_relabel hσ]; exact hg)
    rwa [precLe_relabel_of_sameGroup σ hg] at this
  · intro h
    obtain ⟨p, hp', rfl⟩ := List.mem_map.mp h
    obtain ⟨⟨hp, hk⟩, hmin⟩ := (mem_selected c l p).mp hp' 
    refine (mem_selected _ _ _).mpr ⟨⟨List.mem_map_of_mem hp, hk⟩, ?_⟩
    intro q' hq' hkq hg
    obtain ⟨q, hq, rfl⟩ := List.mem_map.mp hq'
    rw [sameGroup_relabel hσ] at hg
    rw [precLe_relabel_of_sameGroup σ hg]
    exact hmin q hq hkq hg

end PgFdr.C11
