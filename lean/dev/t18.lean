import PgFdr.Model.C18
open PgFdr PgFdr.C18 PgFdr.Generated
set_option maxRecDepth 100000 in
theorem t1 : ∀ m ∈ methods, usable m = true := by decide +kernel
#print axioms t1
#eval methods.map (fun m => (m.name, (parseMethod false m).toOption.map (fun c => (repr c.origin, c.razor))))
