import PgFdr.DriverMain
import PgFdr.Driver.C18
/-! Private single-property driver for development -/
def main : IO Unit := PgFdr.runHandlers PgFdr.Driver.handlersC18
