import PgFdr.DriverMain
import PgFdr.Driver.C10
/-! Private single-property driver for development:
    `PGFDR_DRIVER_CMD="lake env lean --run dev/DriverC10.lean" ./check C10` -/
def main : IO Unit := PgFdr.runHandlers PgFdr.Driver.handlersC10
