import PgFdr.DriverMain
import PgFdr.Driver.C07
import PgFdr.Driver.C02
import PgFdr.Driver.Cli
import PgFdr.Driver.C14
/-! Private driver for development of C07 / C14: `pipeline`, `compete`, `cli`, `cli_stream`. -/
open PgFdr PgFdr.Driver
def main : IO Unit := runHandlers (handlersC07 ++ handlersC02 ++ handlersCli ++ handlersC14)
