import PgFdr.DriverMain
import PgFdr.Driver.C11
/-! Private single-property driver for development:
    `PGFDR_DRIVER_CMD="lake env lean --run dev/DriverC11.lean" ./check C11` -/
def main : IO Unit := PgFdr.runHandlers PgFdr.Driver.handlersC11
