#check @List.set_comm
