import PgFdr.Proofs.C10
namespace PgFdr.C10
#eval (PgFdr.Generated.methods.map (fun m => modeOfScoreType (descriptionOf m) false)).eraseDups
#eval ((PgFdr.Generated.methods.filter (fun m => m.sharedPeptides == some "razor")).map (fun m => modeOfScoreType (descriptionOf m) false)).eraseDups
#eval (PgFdr.Generated.methods.filter (fun m => m.sharedPeptides == some "razor")).length
end PgFdr.C10
