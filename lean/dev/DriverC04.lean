import PgFdr.DriverMain
import PgFdr.Driver.C04
/-! Private single-property driver for development:
    `PGFDR_DRIVER_CMD="lake env lean --run dev/DriverC04.lean" ./check C04` -/
def main : IO Unit := PgFdr.runHandlers PgFdr.Driver.handlersC04
