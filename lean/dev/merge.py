import sys
src=sys.argv[1]
a=open('/verif/lean/PgFdr/Proofs/C11.lean').read()
b=open(src).read()
head,body=b.split("namespace PgFdr.C11",1)
body=body.rsplit("end PgFdr.C11",1)[0]
imports=[l for l in head.splitlines() if l.startswith("import ") and "PgFdr.Proofs.C11" not in l]
for imp in imports:
    if imp not in a:
        a=imp+"\n"+a
a=a.rsplit("end PgFdr.C11",1)[0]+body.rstrip()+"\n\nend PgFdr.C11\n"
open('/verif/lean/PgFdr/Proofs/C11.lean','w').write(a)
