import PgFdr.DriverMain
import PgFdr.Driver.C01
import PgFdr.Driver.C06
/-! Private driver for development of C01/C06:
    `PGFDR_DRIVER_CMD="lake env lean --run dev/DriverC01.lean" ./check C01` -/
def main : IO Unit := PgFdr.runHandlers (PgFdr.Driver.handlersC01 ++ PgFdr.Driver.handlersC06)
