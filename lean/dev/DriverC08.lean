import PgFdr.DriverMain
import PgFdr.Driver.C08
def main : IO Unit := PgFdr.runHandlers PgFdr.Driver.handlersC08
