import PgFdr.Proofs.C11
namespace PgFdr.C11

/-! ### `nub` and the counts -/

theorem mem_nub {α : Type} [BEq α] [LawfulBEq α] : ∀ (l : List α) (x : α), x ∈ nub l ↔ x ∈ l
  | [], x => by simp [nub]
  | a :: r, x => by
    simp only [nub, List.mem_cons, List.mem_filter, mem_nub r x, Bool.not_eq_true', beq_eq_false_iff_ne, ne_eq]
    constructor
    · rintro (h | ⟨h, _⟩)
      · exact Or.inl h
      · exact Or.inr h
    · intro h
      by_cases hxa : x = a
      · exact Or.inl hxa
      · rcases h with h | h
        · exact Or.inl h
        · exact Or.inr ⟨h, hxa⟩

theorem nodup_nub {α : Type} [BEq α] [LawfulBEq α] : ∀ (l : List α), (nub l).Nodup
  | [] => by simp [nub]
  | a :: r => by
    simp only [nub, List.nodup_cons, List.mem_filter, Bool.not_eq_true', beq_eq_false_iff_ne, ne_eq,
      not_true_eq_false, and_false, not_false_eq_true, true_and]
    exact (nodup_nub r).filter _

theorem nub_length_perm {α : Type} [BEq α] [LawfulBEq α] {l l' : List α} (h : l.Perm l') :
    (nub l).length = (nub l').length := by
  apply List.Perm.length_eq
  rw [List.perm_ext_iff_of_nodup (nodup_nub l) (nodup_nub l')]
  intro x
  rw [mem_nub, mem_nub, h.mem_iff]

theorem sumInt_perm {l l' : List Prec} (c : Rat) (h : l.Perm l') (s : Nat) : sumInt c l s = sumInt c l' s := by
  unfold sumInt; exact ((h.filter _).map _).sum_eq

theorem pepCount_perm {l l' : List Prec} (c : Rat) (h : l.Perm l') (s : Nat) : pepCount c l s = pepCount c l' s := by
  unfold pepCount; exact nub_length_perm ((h.filter _).map _)

theorem pairEq_perm {l l' : List Prec} (stab : Bool) (c : Rat) (h : l.Perm l') (col : Nat → List Rat) (e : Nat × Nat) :
    pairEq stab c l col e = pairEq stab c l' col e := by
  unfold pairEq
  simp only [pepCount_perm c h, sumInt_perm c h]

/-- the whole of stage A is independent of the order of the precursor list -/
theorem stageA_perm (o : Opts) {l l' : List Prec} (h : l.Perm l') : stageA o l = stageA o l' := by
  unfold stageA
  simp only [selected_perm o.cutoff h]
  congr 1
  exact List.map_congr_left (fun e _ => pairEq_perm o.stab o.cutoff h _ e)

/-! ### facts about the equations of `stageA` -/

theorem stageA_eqs_pairs (o : Opts) (l : List Prec) :
    (stageA o l).eqs.map (fun q => (q.i, q.j)) =
      pairs o.minRatios o.n o.graph o.minSamples (column (selected o.cutoff l)) := by
  unfold stageA
  simp only [List.map_map]
  conv_rhs => rw [← List.map_id (pairs _ _ _ _ _)]
  apply List.map_congr_left
  intro e _
  simp [pairEq]

theorem stageA_system (o : Opts) (l : List Prec) :
    (stageA o l).system = buildSystem o.n ((stageA o l).eqs.map (fun q => (q.i, q.j))) := by
  rw [stageA_eqs_pairs]; rfl

theorem stageA_eq_mem (o : Opts) (l : List Prec) (q : PairEq) (hq : q ∈ (stageA o l).eqs) :
    q.i < q.j ∧ q.j < o.n ∧
    pairOk o.minRatios o.graph o.minSamples (numValid o.minRatios o.n (column (selected o.cutoff l)))
      (column (selected o.cutoff l)) q.i q.j = true ∧
    q.ratio = ratio (column (selected o.cutoff l)) q.i q.j ∧ (o.stab = false → q.w = 0) := by
  unfold stageA at hq
  simp only [List.mem_map] at hq
  obtain ⟨e, he, rfl⟩ := hq
  rw [mem_pairs] at he
  refine ⟨he.1, he.2.1, he.2.2, rfl, ?_⟩
  intro hs
  simp [pairEq, hs]

end PgFdr.C11
