import Mathlib.Tactic.Linarith
import Mathlib.Tactic.Ring
import Mathlib.Tactic.FieldSimp
import Mathlib.Data.Rat.Defs
import Mathlib.Algebra.Order.Field.Basic
import Mathlib.Data.String.Basic
import Mathlib.Data.List.Perm.Basic
import PgFdr.Model.C11

namespace PgFdr.C11

/-! ### insertion sort -/
section Sorting
variable {α : Type} (le : α → α → Bool)

theorem insertBy_perm (a : α) : ∀ l : List α, (insertBy le a l).Perm (a :: l)
  | [] => by simp [insertBy]
  | b :: r => by
    simp only [insertBy]
    split
    · exact List.Perm.refl _
    · exact ((insertBy_perm a r).cons b).trans (List.Perm.swap a b r)

theorem isort_perm : ∀ l : List α, (isort le l).Perm l
  | [] => by simp [isort]
  | a :: r => by
    simp only [isort]
    exact (insertBy_perm le a _).trans ((isort_perm r).cons a)

variable {le}

theorem insertBy_sorted (htr : ∀ a b c, le a b = true → le b c = true → le a c = true)
    (htot : ∀ a b, le a b = true ∨ le b a = true) (a : α) :
    ∀ l : List α, l.Pairwise (fun x y => le x y = true) → (insertBy le a l).Pairwise (fun x y => le x y = true)
  | [], _ => by simp [insertBy]
  | b :: r, h => by
    simp only [insertBy]
    rw [List.pairwise_cons] at h
    split
    · rename_i hab
      refine List.pairwise_cons.mpr ⟨?_, List.pairwise_cons.mpr h⟩
      intro c hc
      rcases List.mem_cons.mp hc with rfl | hc
      · exact hab
      · exact htr _ _ _ hab (h.1 c hc)
    · rename_i hab
      have hba : le b a = true := by
        rcases htot a b with h1 | h1
        · exact absurd h1 hab
        · exact h1
      refine List.pairwise_cons.mpr ⟨?_, insertBy_sorted htr htot a r h.2⟩
      intro c hc
      have := (insertBy_perm le a r).subset hc
      rcases List.mem_cons.mp this with rfl | hc
      · exact hba
      · exact h.1 c hc

theorem isort_sorted (htr : ∀ a b c, le a b = true → le b c = true → le a c = true)
    (htot : ∀ a b, le a b = true ∨ le b a = true) :
    ∀ l : List α, (isort le l).Pairwise (fun x y => le x y = true)
  | [] => by simp [isort]
  | a :: r => by
    simp only [isort]
    exact insertBy_sorted htr htot a _ (isort_sorted htr htot r)

theorem isort_congr (htr : ∀ a b c, le a b = true → le b c = true → le a c = true)
    (htot : ∀ a b, le a b = true ∨ le b a = true)
    (hanti : ∀ a b, le a b = true → le b a = true → a = b) {l l' : List α} (h : l.Perm l') :
    isort le l = isort le l' := by
  apply List.Perm.eq_of_pairwise (le := fun x y => le x y = true)
  · intro a b _ _ h1 h2; exact hanti a b h1 h2
  · exact isort_sorted htr htot l
  · exact isort_sorted htr htot l'
  · exact (isort_perm le l).trans (h.trans (isort_perm le l').symm)

/-- a sorted permutation of `l` is `isort le l` -/
theorem eq_isort_of_sorted (htr : ∀ a b c, le a b = true → le b c = true → le a c = true)
    (htot : ∀ a b, le a b = true ∨ le b a = true)
    (hanti : ∀ a b, le a b = true → le b a = true → a = b) {l m : List α} (hp : m.Perm l)
    (hs : m.Pairwise (fun x y => le x y = true)) : m = isort le l := by
  apply List.Perm.eq_of_pairwise (le := fun x y => le x y = true)
  · intro a b _ _ h1 h2; exact hanti a b h1 h2
  · exact hs
  · exact isort_sorted htr htot l
  · exact hp.trans (isort_perm le l).symm

end Sorting

/-! ### the sort key is a linear order -/

def LexStep {α : Type} [LinearOrder α] (x y : α) (rest : Prop) : Prop := x < y ∨ (x = y ∧ rest)

theorem LexStep.total {α : Type} [LinearOrder α] {x y : α} {r r' : Prop} (h : x = y → r ∨ r') :
    LexStep x y r ∨ LexStep y x r' := by
  rcases lt_trichotomy x y with h1 | h1 | h1
  · exact Or.inl (Or.inl h1)
  · rcases h h1 with h2 | h2
    · exact Or.inl (Or.inr ⟨h1, h2⟩)
    · exact Or.inr (Or.inr ⟨h1.symm, h2⟩)
  · exact Or.inr (Or.inl h1)

theorem LexStep.trans {α : Type} [LinearOrder α] {x y z : α} {r1 r2 r3 : Prop}
    (h1 : LexStep x y r1) (h2 : LexStep y z r2) (h : r1 → r2 → r3) : LexStep x z r3 := by
  rcases h1 with h1 | ⟨e1, h1⟩ <;> rcases h2 with h2 | ⟨e2, h2⟩
  · exact Or.inl (lt_trans h1 h2)
  · exact Or.inl (e2 ▸ h1)
  · exact Or.inl (e1 ▸ h2)
  · exact Or.inr ⟨e1.trans e2, h h1 h2⟩

theorem LexStep.antisymm {α : Type} [LinearOrder α] {x y : α} {r1 r2 : Prop}
    (h1 : LexStep x y r1) (h2 : LexStep y x r2) : x = y ∧ r1 ∧ r2 := by
  rcases h1 with h1 | ⟨e1, h1⟩ <;> rcases h2 with h2 | ⟨e2, h2⟩
  · exact absurd h1 (not_lt.mpr h2.le)
  · exact absurd h1 (by rw [e2]; exact lt_irrefl _)
  · exact absurd h2 (by rw [e1]; exact lt_irrefl _)
  · exact ⟨e1, h1, h2⟩

theorem pepLe_total : ∀ a b, pepLe a b = true ∨ pepLe b a = true
  | some a, some b => by simp only [pepLe, decide_eq_true_eq]; exact le_total a b
  | none, none => by simp [pepLe]
  | some _, none => by simp [pepLe]
  | none, some _ => by simp [pepLe]

theorem pepLe_trans : ∀ a b c, pepLe a b = true → pepLe b c = true → pepLe a c = true
  | some a, some b, some c => by simp only [pepLe, decide_eq_true_eq]; exact le_trans
  | _, _, none => by intros; cases ‹Option Rat› <;> simp [pepLe]
  | none, some _, _ => by simp [pepLe]
  | _, none, some _ => by simp [pepLe]

theorem pepLe_antisymm : ∀ a b, pepLe a b = true → pepLe b a = true → a = b
  | some a, some b => by
    simp only [pepLe, decide_eq_true_eq]; intro h1 h2; rw [le_antisymm h1 h2]
  | none, none => by simp
  | some _, none => by simp [pepLe]
  | none, some _ => by simp [pepLe]

/-- the propositional reading of `precLe` -/
def PrecLE (a b : Prec) : Prop :=
  LexStep a.peptide b.peptide (LexStep a.charge b.charge (LexStep a.exp b.exp
    (LexStep a.fraction b.fraction (LexStep b.intensity a.intensity (pepLe a.pep b.pep = true)))))

theorem precLe_iff (a b : Prec) : precLe a b = true ↔ PrecLE a b := by
  simp only [precLe, PrecLE, LexStep, Bool.or_eq_true, Bool.and_eq_true, decide_eq_true_eq, beq_iff_eq]
  constructor
  · rintro (h | ⟨h1, h | ⟨h2, h | ⟨h3, h | ⟨h4, h | ⟨h5, h⟩⟩⟩⟩⟩)
    · exact Or.inl h
    · exact Or.inr ⟨h1, Or.inl h⟩
    · exact Or.inr ⟨h1, Or.inr ⟨h2, Or.inl h⟩⟩
    · exact Or.inr ⟨h1, Or.inr ⟨h2, Or.inr ⟨h3, Or.inl h⟩⟩⟩
    · exact Or.inr ⟨h1, Or.inr ⟨h2, Or.inr ⟨h3, Or.inr ⟨h4, Or.inl h⟩⟩⟩⟩
    · exact Or.inr ⟨h1, Or.inr ⟨h2, Or.inr ⟨h3, Or.inr ⟨h4, Or.inr ⟨h5.symm, h⟩⟩⟩⟩⟩
  · rintro (h | ⟨h1, h | ⟨h2, h | ⟨h3, h | ⟨h4, h | ⟨h5, h⟩⟩⟩⟩⟩)
    · exact Or.inl h
    · exact Or.inr ⟨h1, Or.inl h⟩
    · exact Or.inr ⟨h1, Or.inr ⟨h2, Or.inl h⟩⟩
    · exact Or.inr ⟨h1, Or.inr ⟨h2, Or.inr ⟨h3, Or.inl h⟩⟩⟩
    · exact Or.inr ⟨h1, Or.inr ⟨h2, Or.inr ⟨h3, Or.inr ⟨h4, Or.inl h⟩⟩⟩⟩
    · exact Or.inr ⟨h1, Or.inr ⟨h2, Or.inr ⟨h3, Or.inr ⟨h4, Or.inr ⟨h5.symm, h⟩⟩⟩⟩⟩

theorem precLe_total (a b : Prec) : precLe a b = true ∨ precLe b a = true := by
  rw [precLe_iff, precLe_iff]
  refine LexStep.total fun _ => LexStep.total fun _ => LexStep.total fun _ => LexStep.total fun _ => ?_
  exact LexStep.total fun _ => pepLe_total _ _

theorem precLe_trans (a b c : Prec) (h1 : precLe a b = true) (h2 : precLe b c = true) : precLe a c = true := by
  rw [precLe_iff] at *
  refine LexStep.trans h1 h2 fun h1 h2 => LexStep.trans h1 h2 fun h1 h2 => LexStep.trans h1 h2 fun h1 h2 =>
    LexStep.trans h1 h2 fun h1 h2 => ?_
  exact LexStep.trans h2 h1 fun h2 h1 => pepLe_trans _ _ _ h1 h2

theorem precLe_antisymm (a b : Prec) (h1 : precLe a b = true) (h2 : precLe b a = true) : a = b := by
  rw [precLe_iff] at *
  obtain ⟨e1, h1, h2⟩ := LexStep.antisymm h1 h2
  obtain ⟨e2, h1, h2⟩ := LexStep.antisymm h1 h2
  obtain ⟨e3, h1, h2⟩ := LexStep.antisymm h1 h2
  obtain ⟨e4, h1, h2⟩ := LexStep.antisymm h1 h2
  obtain ⟨e5, h1, h2⟩ := LexStep.antisymm h1 h2
  have e6 := pepLe_antisymm _ _ h1 h2
  cases a; cases b; simp_all

end PgFdr.C11
