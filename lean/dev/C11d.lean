import PgFdr.Proofs.C11
import Mathlib.Algebra.BigOperators.Group.List.Basic
namespace PgFdr.C11

/-! ### row keys, cells, columns -/

theorem keyLe_iff (a b : String × Int) : keyLe a b = true ↔ LexStep a.1 b.1 (a.2 ≤ b.2) := by
  simp [keyLe, LexStep]

theorem keyLe_total (a b : String × Int) : keyLe a b = true ∨ keyLe b a = true := by
  rw [keyLe_iff, keyLe_iff]; exact LexStep.total fun _ => le_total _ _

theorem keyLe_trans (a b c : String × Int) (h1 : keyLe a b = true) (h2 : keyLe b c = true) : keyLe a c = true := by
  rw [keyLe_iff] at *; exact LexStep.trans h1 h2 le_trans

theorem keyLe_antisymm (a b : String × Int) (h1 : keyLe a b = true) (h2 : keyLe b a = true) : a = b := by
  rw [keyLe_iff] at *
  obtain ⟨e1, h1, h2⟩ := LexStep.antisymm h1 h2
  exact Prod.ext e1 (le_antisymm h1 h2)

def pkey (p : Prec) : String × Int := (p.peptide, p.charge)

theorem rowKeys_perm {sel sel' : List Prec} (h : sel.Perm sel') : rowKeys sel = rowKeys sel' := by
  unfold rowKeys
  rw [isort_congr keyLe_trans keyLe_total keyLe_antisymm (h.map _)]

theorem cell_perm {sel sel' : List Prec} (h : sel.Perm sel') (k : String × Int) (s : Nat) :
    cell sel k s = cell sel' k s := by
  unfold cell
  exact ((h.filter _).map _).sum_eq

theorem total_perm {sel sel' : List Prec} (h : sel.Perm sel') : total sel = total sel' := by
  unfold total
  exact (h.map _).sum_eq

theorem column_perm {sel sel' : List Prec} (h : sel.Perm sel') (s : Nat) : column sel s = column sel' s := by
  unfold column
  rw [rowKeys_perm h]
  exact List.map_congr_left (fun k _ => cell_perm h k s)

theorem rowKeys_map_relabel (σ : Nat → Nat) (sel : List Prec) :
    rowKeys (sel.map (relabel σ)) = rowKeys sel := by
  unfold rowKeys
  rw [List.map_map]
  rfl

theorem cell_map_relabel {σ : Nat → Nat} (hσ : Function.Injective σ) (sel : List Prec) (k : String × Int) (s : Nat) :
    cell (sel.map (relabel σ)) k (σ s) = cell sel k s := by
  unfold cell
  rw [List.filter_map, List.map_map]
  congr 1
  have : (fun p : Prec => ((p.peptide, p.charge) == k && p.exp == σ s)) ∘ relabel σ =
      fun p : Prec => ((p.peptide, p.charge) == k && p.exp == s) := by
    funext p
    simp only [Function.comp, relabel]
    congr 1
    rw [Bool.eq_iff_iff]; simp only [beq_iff_eq]
    exact ⟨fun h => hσ h, fun h => by rw [h]⟩
  rw [this]
  rfl

theorem total_map_relabel (σ : Nat → Nat) (sel : List Prec) : total (sel.map (relabel σ)) = total sel := by
  unfold total; rw [List.map_map]; rfl

/-- the intensity matrix permutes with the samples -/
theorem column_relabel {σ : Nat → Nat} (hσ : Function.Injective σ) (c : Rat) (l : List Prec) (s : Nat) :
    column (selected c (l.map (relabel σ))) (σ s) = column (selected c l) s := by
  rw [column_perm (selected_relabel hσ c l)]
  unfold column
  rw [rowKeys_map_relabel]
  exact List.map_congr_left (fun k _ => cell_map_relabel hσ _ k s)

theorem total_relabel {σ : Nat → Nat} (hσ : Function.Injective σ) (c : Rat) (l : List Prec) :
    total (selected c (l.map (relabel σ))) = total (selected c l) := by
  rw [total_perm (selected_relabel hσ c l), total_map_relabel]

theorem rowKeys_relabel {σ : Nat → Nat} (hσ : Function.Injective σ) (c : Rat) (l : List Prec) :
    rowKeys (selected c (l.map (relabel σ))) = rowKeys (selected c l) := by
  rw [rowKeys_perm (selected_relabel hσ c l), rowKeys_map_relabel]

theorem sumInt_relabel {σ : Nat → Nat} (hσ : Function.Injective σ) (c : Rat) (l : List Prec) (s : Nat) :
    sumInt c (l.map (relabel σ)) (σ s) = sumInt c l s := by
  unfold sumInt
  rw [List.filter_map, List.map_map]
  congr 1
  have : (fun p : Prec => (pepOk c p && p.exp == σ s)) ∘ relabel σ = fun p : Prec => (pepOk c p && p.exp == s) := by
    funext p
    simp only [Function.comp, relabel, pepOk]
    congr 1
    rw [Bool.eq_iff_iff]; simp only [beq_iff_eq]
    exact ⟨fun h => hσ h, fun h => by rw [h]⟩
  rw [this]
  rfl

theorem pepCount_relabel {σ : Nat → Nat} (hσ : Function.Injective σ) (c : Rat) (l : List Prec) (s : Nat) :
    pepCount c (l.map (relabel σ)) (σ s) = pepCount c l s := by
  unfold pepCount
  rw [List.filter_map, List.map_map]
  have : (fun p : Prec => (pepOk c p && p.exp == σ s)) ∘ relabel σ = fun p : Prec => (pepOk c p && p.exp == s) := by
    funext p
    simp only [Function.comp, relabel, pepOk]
    congr 1
    rw [Bool.eq_iff_iff]; simp only [beq_iff_eq]
    exact ⟨fun h => hσ h, fun h => by rw [h]⟩
  rw [this]
  rfl

end PgFdr.C11
