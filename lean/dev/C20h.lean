import PgFdr.Proofs.C20
set_option linter.unusedSectionVars false
namespace PgFdr.C20
variable {P : Type} [DecidableEq P]

/-! ### lookup callers -/

/-- a collection whose flag is up is determined by its groups -/
theorem eq_ofList_of_valid (pg : PG P) (hinv : Inv pg) (hv : pg.valid = true) : pg = ofList pg.groups := by
  cases pg with
  | mk gs ix v =>
    simp only at hv
    subst hv
    have h := hinv rfl
    simp only at h
    subst h
    rfl

theorem mapRows_error_of_all {α β : Type} (f : α → Except Err β) (e : Err) :
    ∀ rows : List α, rows ≠ [] → (∀ r ∈ rows, f r = .error e) → mapRows f rows = .error e := by
  intro rows hne h
  cases rows with
  | nil => exact absurd rfl hne
  | cons r rs => simp [mapRows, h r (by simp)]

theorem mapRows_ok {α β : Type} (f : α → Except Err β) :
    ∀ (rows : List α) (l : List β), mapRows f rows = .ok l →
      l.length = rows.length ∧ ∀ (t : Nat) (r : α) (a : β), rows[t]? = some r → l[t]? = some a → f r = .ok a := by
  intro rows
  induction rows with
  | nil =>
    intro l h
    simp [mapRows] at h
    subst h
    simp
  | cons r rs ih =>
    intro l h
    simp only [mapRows] at h
    cases hf : f r with
    | error e => simp [hf] at h
    | ok a =>
      simp only [hf] at h
      cases hr : mapRows f rs with
      | error e => simp [hr] at h
      | ok l' =>
        simp only [hr] at h
        have hl : l = a :: l' := by simpa using h.symm
        subst hl
        obtain ⟨hlen, hpt⟩ := ih l' hr
        refine ⟨by simp [hlen], ?_⟩
        intro t r' a' hr' ha'
        cases t with
        | zero =>
          simp at hr' ha'
          subst hr' ha'
          exact hf
        | succ t =>
          simp at hr' ha'
          exact hpt t r' a' hr' ha'

theorem mapRows_total {α β : Type} (f : α → Except Err β) :
    ∀ rows : List α, (∀ r ∈ rows, ∃ a, f r = .ok a) → ∃ l, mapRows f rows = .ok l := by
  intro rows
  induction rows with
  | nil => intro _; exact ⟨[], rfl⟩
  | cons r rs ih =>
    intro h
    obtain ⟨a, ha⟩ := h r (by simp)
    obtain ⟨l, hl⟩ := ih (fun r' hr' => h r' (by simp [hr']))
    exact ⟨a :: l, by simp [mapRows, ha, hl]⟩

/-- the first failing row decides how the call fails -/
theorem mapRows_error {α β : Type} (f : α → Except Err β) (e : Err) :
    ∀ rows : List α, mapRows f rows = .error e → ∃ r ∈ rows, f r = .error e := by
  intro rows
  induction rows with
  | nil => intro h; simp [mapRows] at h
  | cons r rs ih =>
    intro h
    simp only [mapRows] at h
    cases hf : f r with
    | error e' =>
      simp only [hf] at h
      have : e' = e := by simpa using h
      subst this
      exact ⟨r, by simp, hf⟩
    | ok a =>
      simp only [hf] at h
      cases hr : mapRows f rs with
      | error e' =>
        simp only [hr] at h
        have : e' = e := by simpa using h
        subst this
        obtain ⟨r', hr', hf'⟩ := ih hr
        exact ⟨r', by simp [hr'], hf'⟩
      | ok l => simp [hr] at h

theorem rowAnswer_stale (c : Caller) (pg : PG P) (hv : pg.valid = false) (r : List P) :
    rowAnswer c pg r = .error .invalidIndex := by
  have h1 : getIdxs pg r true = .error .invalidIndex := by simp [getIdxs, hv]
  have h2 : getGroups pg r true = .error .invalidIndex := by simp [getGroups, h1]
  cases c <;> simp [rowAnswer, psmRow, quantRow, annotRow, h1, h2]

/-- under a valid index `getGroups` answers -/
theorem getGroups_total (pg : PG P) (hv : pg.valid = true) (r : List P) :
    ∃ gs, getGroups pg r true = .ok gs := by
  simp [getGroups, getIdxs, hv]

theorem getIdxs_total (pg : PG P) (hv : pg.valid = true) (r : List P) :
    getIdxs pg r true = .ok (firsts (r.map (fun p => pg.index.lookup p))) := by
  simp [getIdxs, hv]

/-- every group returned by the multi-protein lookup holds a queried protein (so it is not empty) -/
theorem getGroups_mem_spec (pg : PG P) (hinv : Inv pg) (r : List P) (gs : List (Nat × List P))
    (h : getGroups pg r true = .ok gs) (x : Nat × List P) (hx : x ∈ gs) :
    pg.groups[x.1]? = some x.2 ∧ ∃ q ∈ r, pg.index.lookup q = some x.1 ∧ q ∈ x.2 := by
  obtain ⟨hv, hspec⟩ := getGroups_ok pg r true gs h
  obtain ⟨hg, q, hq, hl⟩ := (hspec x.1 x.2).mp hx
  obtain ⟨g', hg', hqg⟩ := lookup_some_spec pg hinv (hv rfl) q x.1 hl
  rw [hg] at hg'
  have : x.2 = g' := by simpa using hg'
  subst this
  exact ⟨hg, q, hq, hl, hqg⟩

/-- a row none of whose proteins is in a group: the multi-protein lookup returns no group, the position
    set holds at most the missing marker -/
theorem getGroups_of_missing (pg : PG P) (hinv : Inv pg) (hv : pg.valid = true) (r : List P)
    (hm : ∀ p ∈ r, ∀ g ∈ pg.groups, p ∉ g) : getGroups pg r true = .ok [] := by
  obtain ⟨gs, hgs⟩ := getGroups_total pg hv r
  rw [hgs]
  cases gs with
  | nil => rfl
  | cons x t =>
    exfalso
    obtain ⟨hg, q, hq, _, hqg⟩ := getGroups_mem_spec pg hinv r _ hgs x (by simp)
    exact hm q hq x.2 (List.mem_of_getElem? hg) hqg

theorem isMissing_of_missing (pg : PG P) (hinv : Inv pg) (hv : pg.valid = true) (r : List P)
    (hm : ∀ p ∈ r, ∀ g ∈ pg.groups, p ∉ g) :
    isMissingIdxs (firsts (r.map (fun p => pg.index.lookup p))) = true := by
  simp only [isMissingIdxs, List.all_eq_true, Option.isNone_iff_eq_none]
  intro o ho
  rw [mem_firsts, List.mem_map] at ho
  obtain ⟨p, hp, rfl⟩ := ho
  exact (lookup_none_iff pg hinv hv p).mpr (hm p hp)

end PgFdr.C20

namespace PgFdr.C20
variable {P : Type} [DecidableEq P]

theorem eq_singleton_of_length_le_one {α : Type} (l : List α) (x : α) (hl : l.length ≤ 1) (hx : x ∈ l) :
    l = [x] := by
  cases l with
  | nil => simp at hx
  | cons a t =>
    cases t with
    | nil => simp at hx; rw [hx]
    | cons b t' => simp at hl

/-- `psmRow` under a valid index of a reachable collection never fails, and its three outcomes -/
theorem psmRow_cases (pg : PG P) (hinv : Inv pg) (hv : pg.valid = true) (r : List P) :
    ∃ gs, getGroups pg r true = .ok gs ∧
      ((gs = [] ∧ psmRow pg r = .ok .dropped) ∨
       (gs.length > 1 ∧ psmRow pg r = .ok .dropped) ∨
       (∃ x a t, gs = [x] ∧ x.2 = a :: t ∧ psmRow pg r = .ok (if a ∈ r then .written a else .dropped))) := by
  obtain ⟨gs, hgs⟩ := getGroups_total pg hv r
  refine ⟨gs, hgs, ?_⟩
  cases gs with
  | nil => left; exact ⟨rfl, by simp [psmRow, hgs, isMissingGroups]⟩
  | cons x t =>
    cases t with
    | cons y t' => right; left; exact ⟨by simp, by simp [psmRow, hgs, isMissingGroups, isSharedGroups]⟩
    | nil =>
      right; right
      obtain ⟨_, q, _, _, hqg⟩ := getGroups_mem_spec pg hinv r _ hgs x (by simp)
      cases hx : x.2 with
      | nil => rw [hx] at hqg; simp at hqg
      | cons a t => exact ⟨x, a, t, rfl, hx, by simp [psmRow, hgs, isMissingGroups, isSharedGroups, hx]⟩

theorem quantRow_total (pg : PG P) (hv : pg.valid = true) (r : List P) : ∃ a, quantRow pg r = .ok a := by
  unfold quantRow
  rw [getIdxs_total pg hv r]
  simp only
  split
  · exact ⟨_, rfl⟩
  · split
    · exact ⟨_, rfl⟩
    · split <;> exact ⟨_, rfl⟩

theorem quantRow_attached (pg : PG P) (r : List P) (i : Nat) (h : quantRow pg r = .ok (.attached i)) :
    pg.valid = true ∧ r ≠ [] ∧ ∀ p ∈ r, pg.index.lookup p = some i := by
  unfold quantRow at h
  cases hi : getIdxs pg r true with
  | error e => simp [hi] at h
  | ok is =>
    obtain ⟨his, hv⟩ := getIdxs_ok pg r true is hi
    simp only [hi] at h
    split at h
    · simp at h
    · split at h
      · simp at h
      · rename_i hns
        split at h
        · rename_i j hj
          have hij : j = i := by simpa using h
          subst hij
          have hmem : some j ∈ is := by
            cases is with
            | nil => simp at hj
            | cons o os => simp at hj; simp [hj]
          have hlen : (firsts is).length ≤ 1 := by
            simp only [isSharedIdxs, decide_eq_true_eq] at hns
            omega
          have hf := eq_singleton_of_length_le_one (firsts is) (some j) hlen ((mem_firsts is _).mpr hmem)
          have hall : ∀ o ∈ is, o = some j := by
            intro o ho
            have := (mem_firsts is o).mpr ho
            rw [hf] at this
            simpa using this
          refine ⟨hv rfl, ?_, ?_⟩
          · intro hr
            rw [hr] at his
            simp [firsts] at his
            rw [his] at hmem
            simp at hmem
          · intro p hp
            apply hall
            rw [his, mem_firsts, List.mem_map]
            exact ⟨p, hp, rfl⟩
        · simp at h

theorem annotRow_cases (pg : PG P) (hv : pg.valid = true) (r : List P) :
    ∃ gs, getGroups pg r true = .ok gs ∧
      ((gs = [] ∧ annotRow pg r = .error .indexError) ∨
       (gs ≠ [] ∧ annotRow pg r = .ok (.leaders (gs.filterMap (fun x => x.2.head?))))) := by
  obtain ⟨gs, hgs⟩ := getGroups_total pg hv r
  refine ⟨gs, hgs, ?_⟩
  cases gs with
  | nil => left; exact ⟨rfl, by simp [annotRow, hgs]⟩
  | cons x t => right; exact ⟨by simp, by simp [annotRow, hgs]⟩

/-- `getGroups` returns nothing only for a row none of whose proteins is in a group -/
theorem missing_of_getGroups_nil (pg : PG P) (hinv : Inv pg) (r : List P)
    (h : getGroups pg r true = .ok []) : ∀ p ∈ r, ∀ g ∈ pg.groups, p ∉ g := by
  obtain ⟨hv, hspec⟩ := getGroups_ok pg r true [] h
  intro p hp
  cases hl : pg.index.lookup p with
  | none => exact (lookup_none_iff pg hinv (hv rfl) p).mp hl
  | some i =>
    obtain ⟨g', hg', _⟩ := lookup_some_spec pg hinv (hv rfl) p i hl
    have : (i, g') ∈ ([] : List (Nat × List P)) := (hspec i g').mpr ⟨hg', p, hp, hl⟩
    simp at this

/-- a row of a lookup caller on a reachable, indexed collection fails only in `append_columns`, only with
    `[][0]`, only for a row none of whose proteins is in a group -/
theorem rowAnswer_error (c : Caller) (pg : PG P) (hinv : Inv pg) (hv : pg.valid = true) (r : List P) (e : Err)
    (h : rowAnswer c pg r = .error e) :
    c = .annotate ∧ e = .indexError ∧ ∀ p ∈ r, ∀ g ∈ pg.groups, p ∉ g := by
  have hq : ∀ e, quantRow pg r ≠ .error e := by
    intro e he
    obtain ⟨a, ha⟩ := quantRow_total pg hv r
    rw [ha] at he; cases he
  have hp : ∀ e, psmRow pg r ≠ .error e := by
    intro e he
    obtain ⟨gs, _, h1 | h1 | ⟨x, a, t, _, _, h1⟩⟩ := psmRow_cases pg hinv hv r
    · rw [h1.2] at he; cases he
    · rw [h1.2] at he; cases he
    · rw [h1] at he; cases he
  cases c with
  | annotate =>
    refine ⟨rfl, ?_⟩
    simp only [rowAnswer] at h
    obtain ⟨gs, hgs, ⟨hnil, h1⟩ | ⟨_, h1⟩⟩ := annotRow_cases pg hv r
    · rw [h1] at h
      refine ⟨by simpa using h.symm, ?_⟩
      rw [hnil] at hgs
      exact missing_of_getGroups_nil pg hinv r hgs
    · rw [h1] at h; cases h
  | psmUpdate => exact absurd h (hp e)
  | fragpipeQuant => exact absurd h (hq e)
  | fragpipeIon => exact absurd h (hq e)
  | sageQuant => exact absurd h (hq e)
  | sageLfq => exact absurd h (hq e)
  | maxquantQuant => exact absurd h (hq e)
  | collectScores => exact absurd h (hq e)

end PgFdr.C20

namespace PgFdr.C20
variable {P : Type} [DecidableEq P]

/-- no protein sits at two positions of the collection -/
def DisjointPos (gs : List (List P)) : Prop :=
  ∀ (i j : Nat) (g₁ g₂ : List P) (p : P), gs[i]? = some g₁ → gs[j]? = some g₂ → p ∈ g₁ → p ∈ g₂ → i = j

theorem lookup_of_mem_disjoint (pg : PG P) (hinv : Inv pg) (hv : pg.valid = true) (hd : DisjointPos pg.groups)
    (i : Nat) (g : List P) (hg : pg.groups[i]? = some g) (p : P) (hp : p ∈ g) :
    pg.index.lookup p = some i := by
  cases hl : pg.index.lookup p with
  | none => exact absurd hp ((lookup_none_iff pg hinv hv p).mp hl g (List.mem_of_getElem? hg))
  | some j =>
    obtain ⟨g', hg', hp'⟩ := lookup_some_spec pg hinv hv p j hl
    rw [hd j i g' g p hg' hg hp' hp]

theorem firsts_of_const {α : Type} [DecidableEq α] (x : α) :
    ∀ l : List α, l ≠ [] → (∀ y ∈ l, y = x) → firsts l = [x] := by
  intro l
  induction l with
  | nil => intro h; exact absurd rfl h
  | cons a t ih =>
    intro _ hall
    have ha : a = x := hall a (by simp)
    subst ha
    simp only [firsts]
    have : (firsts t).filter (fun y => decide (y ≠ a)) = [] := by
      rw [List.filter_eq_nil_iff]
      intro y hy
      have : y = a := hall y (by simp [(mem_firsts t y).mp hy])
      simp [this]
    rw [this]

theorem quantRow_of_all_in (pg : PG P) (hinv : Inv pg) (hv : pg.valid = true) (hd : DisjointPos pg.groups)
    (r : List P) (i : Nat) (g : List P) (hg : pg.groups[i]? = some g) (hne : r ≠ []) (hall : ∀ p ∈ r, p ∈ g) :
    quantRow pg r = .ok (.attached i) := by
  have hf : firsts (r.map (fun p => pg.index.lookup p)) = [some i] := by
    apply firsts_of_const
    · simpa using hne
    · intro y hy
      obtain ⟨p, hp, rfl⟩ := List.mem_map.mp hy
      exact lookup_of_mem_disjoint pg hinv hv hd i g hg p (hall p hp)
  unfold quantRow
  rw [getIdxs_total pg hv r, hf]
  simp [isMissingIdxs, isSharedIdxs, firsts]

theorem psmRow_of_one_group (pg : PG P) (hinv : Inv pg) (hv : pg.valid = true) (hd : DisjointPos pg.groups)
    (r : List P) (i : Nat) (g : List P) (hg : pg.groups[i]? = some g) (hex : ∃ p ∈ r, p ∈ g)
    (hall : ∀ p ∈ r, (∃ g' ∈ pg.groups, p ∈ g') → p ∈ g) (a : P) (ha : g.head? = some a) :
    psmRow pg r = .ok (if a ∈ r then .written a else .dropped) := by
  obtain ⟨gs, hgs, h1 | h1 | ⟨x, a', t, hx, hxa, h1⟩⟩ := psmRow_cases pg hinv hv r
  · exfalso
    obtain ⟨p, hp, hpg⟩ := hex
    rw [h1.1] at hgs
    exact missing_of_getGroups_nil pg hinv r hgs p hp g (List.mem_of_getElem? hg) hpg
  · exfalso
    -- two returned groups sit at the same position i
    have hpos : ∀ y ∈ gs, y.1 = i := by
      intro y hy
      obtain ⟨hyg, q, hq, _, hqy⟩ := getGroups_mem_spec pg hinv r gs hgs y hy
      have := hall q hq ⟨y.2, List.mem_of_getElem? hyg, hqy⟩
      exact hd y.1 i y.2 g q hyg hg hqy this
    have hnd := getGroups_nodup pg r true gs hgs
    cases gs with
    | nil => simp at h1
    | cons y t =>
      cases t with
      | nil => simp at h1
      | cons z t' =>
        have h1' := hpos y (by simp)
        have h2' := hpos z (by simp)
        simp [h1', h2'] at hnd
  · rw [h1]
    rw [hx] at hgs
    obtain ⟨hxg, q, hq, _, hqx⟩ := getGroups_mem_spec pg hinv r [x] hgs x (by simp)
    have hqg := hall q hq ⟨x.2, List.mem_of_getElem? hxg, hqx⟩
    have hxi : x.1 = i := hd x.1 i x.2 g q hxg hg hqx hqg
    rw [hxi, hg] at hxg
    have : g = x.2 := by simpa using hxg
    rw [this, hxa] at ha
    have : a' = a := by simpa using ha
    rw [this]

end PgFdr.C20
