example : ("AB" < "AC") := by decide
example : decide ("AB" < "AC") = true := by decide +kernel
example : ("AB" == "AB") = true := by decide
example : ([("PEPB",2),("PEPA",1)].mergeSort (fun a b => decide (a.1 ≤ b.1))) = [("PEPA",1),("PEPB",2)] := by decide +kernel
#check @List.Perm.eq_of_pairwise
#check @List.pairwise_mergeSort
#check @List.mergeSort_perm
#check @List.sum_eq_foldr
#check @List.eraseDups
#check @Std.TransCmp
#print String
example : ((3:Rat)/4 < 1) := by decide +kernel
