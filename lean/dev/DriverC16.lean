import PgFdr.DriverMain
import PgFdr.Driver.C16
/-! Private single-property driver for development (interpreted). -/
def main : IO Unit := PgFdr.runHandlers PgFdr.Driver.handlersC16
