import PgFdr.DriverMain
import PgFdr.Driver.C19
def main : IO Unit := PgFdr.runHandlers PgFdr.Driver.handlersC19
