import PgFdr.Proofs.C11
namespace PgFdr.C11

/-! ### valid pairs -/

theorem mem_allPairs (n : Nat) (e : Nat × Nat) : e ∈ allPairs n ↔ e.1 < e.2 ∧ e.2 < n := by
  unfold allPairs
  simp only [List.mem_flatMap, List.mem_range, List.mem_map, List.mem_filter, decide_eq_true_eq]
  constructor
  · rintro ⟨i, _, j, ⟨hj, hij⟩, rfl⟩; exact ⟨hij, hj⟩
  · rintro ⟨h1, h2⟩; exact ⟨e.1, by omega, e.2, ⟨h2, h1⟩, rfl⟩

theorem mem_pairs (m n : Nat) (g : Option (List (Nat × Nat))) (ms : Nat) (col : Nat → List Rat) (e : Nat × Nat) :
    e ∈ pairs m n g ms col ↔ e.1 < e.2 ∧ e.2 < n ∧ pairOk m g ms (numValid m n col) col e.1 e.2 = true := by
  unfold pairs
  rw [List.mem_filter, mem_allPairs, and_assoc]

theorem zip_swap' {α β : Type} : ∀ (l₁ : List α) (l₂ : List β), (l₁.zip l₂).map Prod.swap = l₂.zip l₁
  | [], l₂ => by cases l₂ <;> simp
  | _ :: _, [] => by simp
  | a :: l₁, b :: l₂ => by simp [zip_swap' l₁ l₂]

theorem shared_comm (ci cj : List Rat) : shared ci cj = shared cj ci := by
  unfold shared
  rw [← zip_swap' ci cj, List.filter_map, List.length_map]
  congr 1
  apply List.filter_congr
  intro ab _
  simp [Function.comp, Bool.and_comm]

theorem hasEdge_comm (g : List (Nat × Nat)) (i j : Nat) : hasEdge g i j = hasEdge g j i := by
  unfold hasEdge; rw [Bool.or_comm]

/-- whether a pair of samples gets a ratio does not depend on the order of the two samples -/
theorem pairOk_comm (m : Nat) (g : Option (List (Nat × Nat))) (ms nv : Nat) (col : Nat → List Rat) (i j : Nat) :
    pairOk m g ms nv col i j = pairOk m g ms nv col j i := by
  unfold pairOk
  rw [shared_comm (col i) (col j), hasEdge_comm _ i j, Bool.and_comm (validCol m col i)]

theorem map_range_mem {σ : Nat → Nat} {n : Nat} (hp : ((List.range n).map σ).Perm (List.range n)) {s : Nat}
    (hs : s < n) : σ s < n := by
  have : σ s ∈ (List.range n).map σ := List.mem_map_of_mem (List.mem_range.mpr hs)
  exact List.mem_range.mp (hp.subset this)

theorem numValid_relabel {σ : Nat → Nat} {n : Nat} (hp : ((List.range n).map σ).Perm (List.range n))
    (m : Nat) {col col' : Nat → List Rat} (hcol : ∀ s, col' (σ s) = col s) :
    numValid m n col' = numValid m n col := by
  unfold numValid
  rw [← (hp.filter _).length_eq, List.filter_map, List.length_map]
  congr 2
  funext s
  simp [Function.comp, validCol, hcol]

def mapGraph (σ : Nat → Nat) (g : Option (List (Nat × Nat))) : Option (List (Nat × Nat)) :=
  g.map (fun es => es.map (fun e => (σ e.1, σ e.2)))

theorem hasEdge_map {σ : Nat → Nat} (hσ : Function.Injective σ) (es : List (Nat × Nat)) (i j : Nat) :
    hasEdge (es.map (fun e => (σ e.1, σ e.2))) (σ i) (σ j) = hasEdge es i j := by
  have key : ∀ a b : Nat, (es.map (fun e => (σ e.1, σ e.2))).contains (σ a, σ b) = es.contains (a, b) := by
    intro a b
    rw [Bool.eq_iff_iff]
    simp only [List.contains_iff_mem, List.mem_map, Prod.mk.injEq]
    constructor
    · rintro ⟨e, he, h1, h2⟩
      have : e = (a, b) := Prod.ext (hσ h1) (hσ h2)
      rwa [this] at he
    · intro h; exact ⟨(a, b), h, rfl, rfl⟩
  unfold hasEdge
  rw [key, key]

theorem pairOk_relabel {σ : Nat → Nat} (hσ : Function.Injective σ) (m : Nat) (g : Option (List (Nat × Nat)))
    (ms nv : Nat) {col col' : Nat → List Rat} (hcol : ∀ s, col' (σ s) = col s) (i j : Nat) :
    pairOk m (mapGraph σ g) ms nv col' (σ i) (σ j) = pairOk m g ms nv col i j := by
  unfold pairOk validCol
  rw [hcol, hcol]
  cases g with
  | none => simp [mapGraph, fastActive]
  | some es =>
    simp only [mapGraph, Option.map_some, fastActive, Option.isSome_some, Option.getD_some]
    rw [hasEdge_map hσ]

theorem ratio_relabel {σ : Nat → Nat} {col col' : Nat → List Rat} (hcol : ∀ s, col' (σ s) = col s) (i j : Nat) :
    ratio col' (σ i) (σ j) = ratio col i j := by
  unfold ratio; rw [hcol, hcol]

/-- the set of valid sample pairs permutes with the samples (as unordered pairs) -/
theorem pairs_relabel {σ : Nat → Nat} (hσ : Function.Injective σ) {n : Nat}
    (hp : ((List.range n).map σ).Perm (List.range n)) (m : Nat) (g : Option (List (Nat × Nat))) (ms : Nat)
    {col col' : Nat → List Rat} (hcol : ∀ s, col' (σ s) = col s) (i j : Nat)
    (h : (i, j) ∈ pairs m n g ms col) :
    (σ i, σ j) ∈ pairs m n (mapGraph σ g) ms col' ∨ (σ j, σ i) ∈ pairs m n (mapGraph σ g) ms col' := by
  rw [mem_pairs] at h
  obtain ⟨hij, hjn, hok⟩ := h
  simp only at hij hjn hok
  have hin : i < n := by omega
  have hne : σ i ≠ σ j := fun e => by have := hσ e; omega
  have hok' : pairOk m (mapGraph σ g) ms (numValid m n col') col' (σ i) (σ j) = true := by
    rw [numValid_relabel hp m hcol, pairOk_relabel hσ m g ms _ hcol]; exact hok
  rcases Nat.lt_or_gt_of_ne hne with hlt | hgt
  · left; rw [mem_pairs]; exact ⟨hlt, map_range_mem hp hjn, hok'⟩
  · right; rw [mem_pairs]; exact ⟨hgt, map_range_mem hp hin, by rw [pairOk_comm]; exact hok'⟩

end PgFdr.C11
