import PgFdr.Proofs.C11
namespace PgFdr.C11

/-! ### orientation of a pair: the median of the inverse ratios -/

def ratioFn (ab : Rat × Rat) : Option Rat := if ab.1 == 0 || ab.2 == 0 then none else some (ab.1 / ab.2)

theorem ratiosOf_eq (ci cj : List Rat) : ratiosOf ci cj = (ci.zip cj).filterMap ratioFn := rfl

theorem filterMap_ratio_swap : ∀ L : List (Rat × Rat),
    (L.map Prod.swap).filterMap ratioFn = (L.filterMap ratioFn).map (fun x => x⁻¹)
  | [] => rfl
  | ab :: r => by
    simp only [List.map_cons, List.filterMap_cons, filterMap_ratio_swap r]
    by_cases h : (ab.1 == 0 || ab.2 == 0) = true
    · have h1 : ratioFn ab = none := by simp only [ratioFn, h, if_true]
      have h2 : ratioFn ab.swap = none := by
        simp only [ratioFn, Prod.fst_swap, Prod.snd_swap]; rw [Bool.or_comm, h]; rfl
      rw [h1, h2]
    · have h1 : ratioFn ab = some (ab.1 / ab.2) := by simp only [ratioFn, h]; rfl
      have h2 : ratioFn ab.swap = some (ab.2 / ab.1) := by
        simp only [ratioFn, Prod.fst_swap, Prod.snd_swap]; rw [Bool.or_comm]; simp only [h]; rfl
      rw [h1, h2]
      simp only [List.map_cons, inv_div]

theorem ratiosOf_swap (ci cj : List Rat) : ratiosOf cj ci = (ratiosOf ci cj).map (fun x => x⁻¹) := by
  rw [ratiosOf_eq, ratiosOf_eq, ← zip_swap' ci cj, filterMap_ratio_swap]

theorem ratiosOf_pos {ci cj : List Rat} (hi : ∀ x ∈ ci, 0 ≤ x) (hj : ∀ x ∈ cj, 0 ≤ x) :
    ∀ x ∈ ratiosOf ci cj, 0 < x := by
  intro x hx
  obtain ⟨ab, hab, h1, h2, rfl⟩ := mem_ratiosOf hx
  have hm := List.of_mem_zip hab
  exact div_pos (lt_of_le_of_ne (hi _ hm.1) (Ne.symm h1)) (lt_of_le_of_ne (hj _ hm.2) (Ne.symm h2))

theorem length_ratiosOf {ci cj : List Rat} (hi : ∀ x ∈ ci, 0 ≤ x) (hj : ∀ x ∈ cj, 0 ≤ x) :
    (ratiosOf ci cj).length = shared ci cj := by
  have key : ∀ L : List (Rat × Rat), (∀ ab ∈ L, 0 ≤ ab.1 ∧ 0 ≤ ab.2) →
      (L.filterMap ratioFn).length = (L.filter (fun ab => decide (0 < ab.1) && decide (0 < ab.2))).length := by
    intro L
    induction L with
    | nil => intro _; rfl
    | cons ab r ih =>
      intro h
      have hab := h ab List.mem_cons_self
      have ih' := ih (fun x hx => h x (List.mem_cons_of_mem _ hx))
      simp only [List.filterMap_cons, List.filter_cons]
      by_cases h0 : (ab.1 == 0 || ab.2 == 0) = true
      · have : (decide (0 < ab.1) && decide (0 < ab.2)) = false := by
          simp only [Bool.or_eq_true, beq_iff_eq] at h0
          rcases h0 with h0 | h0 <;> simp [h0]
        simp only [ratioFn, h0, if_true, this, ih']
        try simp
      · have : (decide (0 < ab.1) && decide (0 < ab.2)) = true := by
          simp only [Bool.or_eq_true, beq_iff_eq, not_or] at h0
          simp only [Bool.and_eq_true, decide_eq_true_eq]
          exact ⟨lt_of_le_of_ne hab.1 (Ne.symm h0.1), lt_of_le_of_ne hab.2 (Ne.symm h0.2)⟩
        simp only [ratioFn, h0, this, if_true, List.length_cons]
        first | exact ih' | (simp; exact ih')
  rw [ratiosOf_eq, shared]
  apply key
  intro ab hab
  have hm := List.of_mem_zip hab
  exact ⟨hi _ hm.1, hj _ hm.2⟩

theorem getD_map_inv (s : List Rat) (k : Nat) : (s.map (fun x => x⁻¹)).getD k 0 = (s.getD k 0)⁻¹ := by
  simp only [List.getD_eq_getElem?_getD, List.getElem?_map]
  cases s[k]? <;> simp

/-- for an ODD number of positive values the median of the inverses is the inverse of the median -/
theorem median_inv_of_odd {l : List Rat} (hpos : ∀ x ∈ l, 0 < x) (hodd : l.length % 2 = 1) :
    median (l.map (fun x => x⁻¹)) = (median l)⁻¹ := by
  have hs := isort_sorted ratLe_trans ratLe_total l
  have hperm := isort_perm ratLe l
  set s := isort ratLe l with hsdef
  have hspos : ∀ x ∈ s, 0 < x := fun x hx => hpos x (hperm.subset hx)
  have hT : isort ratLe (l.map (fun x => x⁻¹)) = (s.map (fun x => x⁻¹)).reverse := by
    symm
    apply eq_isort_of_sorted ratLe_trans ratLe_total ratLe_antisymm
    · exact (List.reverse_perm _).trans (hperm.map _)
    · rw [List.pairwise_reverse, List.pairwise_map]
      refine hs.imp_of_mem ?_
      intro a b ha hb hab
      simp only [ratLe, decide_eq_true_eq] at hab ⊢
      exact inv_anti₀ (hspos a ha) hab
  have hlen : s.length = l.length := hperm.length_eq
  unfold median
  rw [hT, ← hsdef]
  simp only [List.length_reverse, List.length_map, hlen]
  have hn0 : ¬ l.length = 0 := by omega
  rw [if_neg hn0, if_pos hodd, if_neg hn0, if_pos hodd]
  rw [List.getD_eq_getElem?_getD, List.getElem?_reverse (by simp only [List.length_map, hlen]; omega)]
  simp only [List.length_map, hlen]
  have : l.length - 1 - l.length / 2 = l.length / 2 := by omega
  rw [this, ← List.getD_eq_getElem?_getD, getD_map_inv]

/-- with an odd number of shared peptides the median ratio of the flipped pair is the inverse, i.e. the
    orientation of the pair does not matter -/
theorem ratio_swap_of_odd {col : Nat → List Rat} {i j : Nat} (hi : ∀ x ∈ col i, 0 ≤ x) (hj : ∀ x ∈ col j, 0 ≤ x)
    (hodd : shared (col i) (col j) % 2 = 1) : ratio col j i = (ratio col i j)⁻¹ := by
  unfold ratio
  rw [ratiosOf_swap (col i) (col j)]
  exact median_inv_of_odd (ratiosOf_pos hi hj) (by rw [length_ratiosOf hi hj]; exact hodd)

theorem cell_nonneg (c : Rat) (l : List Prec) (k : String × Int) (s : Nat) : 0 ≤ cell (selected c l) k s := by
  unfold cell
  apply List.sum_nonneg
  intro x hx
  obtain ⟨p, hp, rfl⟩ := List.mem_map.mp hx
  have hp' := (List.mem_filter.mp hp).1
  have hk := ((mem_selected c l p).mp hp').1.2
  unfold keep at hk
  simp only [Bool.and_eq_true, decide_eq_true_eq] at hk
  exact hk.1.le

theorem column_nonneg (c : Rat) (l : List Prec) (s : Nat) : ∀ x ∈ column (selected c l) s, 0 ≤ x := by
  intro x hx
  unfold column at hx
  obtain ⟨k, _, rfl⟩ := List.mem_map.mp hx
  exact cell_nonneg c l k s

end PgFdr.C11
