import PgFdr.DriverMain
import PgFdr.Driver.C09
def main : IO Unit := PgFdr.runHandlers PgFdr.Driver.handlersC09
