import Mathlib.Data.List.Pairwise
open List
#check @List.pairwise_of_forall_mem_list
#check @List.Pairwise.imp_of_mem
#check @List.pairwise_of_forall
#check @List.sublist_mergeSort
#check @List.Sublist.eq_of_length
#check @List.pairwise_filter
