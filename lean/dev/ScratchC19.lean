import PgFdr.Props.C19

namespace PgFdr.C19

/-! ### SECTION-PROOFS -/

/-! ### the annotation path: `readProteinsLoop` is `readLoop` followed by `annotateAll` -/

theorem annotateAll_append (rule : IdRule) (a b : List (List Char × Nat)) :
    annotateAll rule (a ++ b) =
      match annotateAll rule a with
      | .error e => .error e
      | .ok as =>
        match annotateAll rule b with
        | .error e => .error e
        | .ok bs => .ok (as ++ bs) := by
  induction a with
  | nil =>
    simp only [List.nil_append, annotateAll]
    cases annotateAll rule b <;> rfl
  | cons r a ih =>
    simp only [List.cons_append, annotateAll]
    cases annotate rule r.1 r.2 with
    | error e => rfl
    | ok x =>
      simp only
      rw [ih]
      cases annotateAll rule a with
      | error e => rfl
      | ok as =>
        simp only
        cases annotateAll rule b <;> rfl

/-- every annotation carries the header and the length of the record it was made from -/
theorem annotateAll_header_length (rule : IdRule) (l : List (List Char × Nat)) (as : List Annotation)
    (h : annotateAll rule l = .ok as) : as.map (fun a => (a.header, a.length)) = l := by
  induction l generalizing as with
  | nil => simp only [annotateAll, Except.ok.injEq] at h; subst h; rfl
  | cons r l ih =>
    simp only [annotateAll] at h
    cases ha : annotate rule r.1 r.2 with
    | error e => rw [ha] at h; cases h
    | ok a =>
      rw [ha] at h
      simp only at h
      cases hl : annotateAll rule l with
      | error e => rw [hl] at h; cases h
      | ok as' =>
        rw [hl] at h
        injection h with h
        subst h
        have hhd : (a.header, a.length) = r := by
          unfold annotate at ha
          simp only at ha
          split at ha
          · cases ha
          · injection ha with ha; subst ha; rfl
        simp only [List.map_cons, hhd, ih as' hl]

theorem readProteinsLoop_of_readLoop (concat : Bool) (rule : IdRule) (ls : List (List Char)) :
    ∀ (st : RState) (recs : List (List Char × Nat)), readLoop concat st ls = .ok recs →
      readProteinsLoop concat rule st ls = annotateAll rule recs := by
  induction ls with
  | nil =>
    intro st recs h
    simp only [readLoop, Except.ok.injEq] at h
    subst h
    rfl
  | cons l r ih =>
    intro st recs h
    simp only [readLoop] at h
    simp only [readProteinsLoop]
    cases hs : stepLine concat st l with
    | error e => rw [hs] at h; cases h
    | ok p =>
      obtain ⟨st', out⟩ := p
      rw [hs] at h
      simp only at h ⊢
      cases hr : readLoop concat st' r with
      | error e => rw [hr] at h; cases h
      | ok rest =>
        rw [hr] at h
        injection h with h
        subst h
        rw [ih st' rest hr, annotateAll_append]
        cases annotateAll rule out with
        | error e => rfl
        | ok as => cases annotateAll rule rest <;> rfl

/-- a reader failure is a failure of the annotation path too (possibly preceded by an earlier `int()` failure) -/
theorem readProteinsLoop_error_of_readLoop (concat : Bool) (rule : IdRule) (ls : List (List Char)) :
    ∀ (st : RState) (e : Err), readLoop concat st ls = .error e →
      ∃ e', readProteinsLoop concat rule st ls = .error e' := by
  induction ls with
  | nil => intro st e h; simp only [readLoop] at h; cases h
  | cons l r ih =>
    intro st e h
    simp only [readLoop] at h
    simp only [readProteinsLoop]
    cases hs : stepLine concat st l with
    | error e' => exact ⟨e', rfl⟩
    | ok p =>
      obtain ⟨st', out⟩ := p
      rw [hs] at h
      simp only at h ⊢
      cases hr : readLoop concat st' r with
      | ok rest => rw [hr] at h; cases h
      | error e' =>
        obtain ⟨e'', he''⟩ := ih st' e' hr
        cases annotateAll rule out with
        | error e3 => exact ⟨e3, rfl⟩
        | ok as => exact ⟨e'', by simp only [he'']⟩

/-! ### a file of composed records -/

/-- a record whose header line is rendered from fields -/
structure ComposedRecord where
  fields : Fields
  seqLines : List (List Char)

def ComposedRecord.toRecord (c : ComposedRecord) : FastaRecord := { header := render c.fields, seqLines := c.seqLines }

/-- well-formed, blank-free fields; no line ends in white space, no sequence line starts with `>` -/
def ComposedRecord.Good (c : ComposedRecord) : Prop := c.fields.WF ∧ c.fields.NoBlank ∧ c.toRecord.Clean

/-- the lines of the file: per record the header line `>` + rendered header, then its sequence lines -/
def composedFile (crs : List ComposedRecord) : List (List Char) := crs.flatMap (fun c => c.toRecord.lines)

/-- the fields of the decoy record the reader generates: `REV__` in front of the header, i.e. of the `db` part -/
def decoyFields (f : Fields) : Fields := { f with db := decoyPrefix ++ f.db }

/-- the annotations the composed fields stand for, in file order: per record the target's and, when decoys are
    generated (`concat`), the decoy's; `expected rule f n` holds the fields `f` was composed of -/
def composedAnnotations (concat : Bool) (rule : IdRule) (crs : List ComposedRecord) : List Annotation :=
  crs.flatMap (fun c =>
    if concat then [expected rule c.fields c.toRecord.seqLength, expected rule (decoyFields c.fields) c.toRecord.seqLength]
    else [expected rule c.fields c.toRecord.seqLength])

theorem render_decoyFields (f : Fields) : render (decoyFields f) = decoyPrefix ++ render f := by
  have h1 : compose f = f.ident :: (compose f).tail := by
    unfold compose; simp
  have h2 : compose (decoyFields f) = (decoyPrefix ++ f.ident) :: (compose f).tail := by
    unfold compose decoyFields Fields.ident; simp
  unfold render
  rw [h2, unwords_append_head, ← h1]

theorem decoyFields_WF (f : Fields) (h : f.WF) : (decoyFields f).WF := by
  refine { h with dbBar := ?_ }
  show '|' ∉ decoyPrefix ++ f.db
  intro hm
  rcases List.mem_append.mp hm with hm | hm
  · revert hm; decide
  · exact h.dbBar hm

theorem decoyFields_NoBlank (f : Fields) (h : f.NoBlank) : (decoyFields f).NoBlank := by
  refine { h with db := ?_ }
  show ' ' ∉ decoyPrefix ++ f.db
  intro hm
  rcases List.mem_append.mp hm with hm | hm
  · revert hm; decide
  · exact h.db hm

theorem annotateAll_yielded (concat : Bool) (rule : IdRule) (c : ComposedRecord) (h : c.Good) :
    annotateAll rule (c.toRecord.yielded concat) = .ok (composedAnnotations concat rule [c]) := by
  obtain ⟨hw, hb, -⟩ := h
  have e1 := annotate_render rule c.fields hw hb c.toRecord.seqLength
  have e2 := annotate_render rule (decoyFields c.fields) (decoyFields_WF _ hw) (decoyFields_NoBlank _ hb)
    c.toRecord.seqLength
  rw [render_decoyFields] at e2
  cases concat
  · simp only [FastaRecord.yielded, composedAnnotations, Bool.false_eq_true, if_false, List.flatMap_cons,
      List.flatMap_nil, List.append_nil, annotateAll]
    have : c.toRecord.header = render c.fields := rfl
    rw [this, e1]
  · simp only [FastaRecord.yielded, composedAnnotations, if_true, List.flatMap_cons,
      List.flatMap_nil, List.append_nil, annotateAll]
    have : c.toRecord.header = render c.fields := rfl
    rw [this, e1, e2]

theorem annotateAll_composed (concat : Bool) (rule : IdRule) (crs : List ComposedRecord) (h : ∀ c ∈ crs, c.Good) :
    annotateAll rule ((crs.map ComposedRecord.toRecord).flatMap (FastaRecord.yielded concat)) =
      .ok (composedAnnotations concat rule crs) := by
  induction crs with
  | nil => rfl
  | cons c crs ih =>
    rw [List.map_cons, List.flatMap_cons, annotateAll_append, annotateAll_yielded concat rule c (h c (by simp)),
      ih (fun x hx => h x (by simp [hx]))]
    simp [composedAnnotations]

theorem merge_nil (e : Dict) : merge [] e = e := by
  unfold merge
  simp [Dict.contains]

theorem multiple_one (concat : Bool) (rule : IdRule) (file : List (List Char)) :
    multiple concat rule [file] =
      match readProteins concat rule file with
      | .error e => .error e
      | .ok recs => .ok (single recs) := by
  unfold multiple
  simp only [multipleFrom]
  cases readProteins concat rule file with
  | error e => rfl
  | ok recs => simp only [merge_nil]

theorem foldl_insertNew_ne_nil (l : List Annotation) (d : Dict) (h : d ≠ []) : l.foldl insertNew d ≠ [] := by
  induction l generalizing d with
  | nil => exact h
  | cons a l ih =>
    rw [List.foldl_cons]
    apply ih
    unfold insertNew
    split
    · exact h
    · simp

theorem single_ne_nil (l : List Annotation) (h : l ≠ []) : single l ≠ [] := by
  cases l with
  | nil => exact absurd rfl h
  | cons a l =>
    unfold single
    rw [List.foldl_cons]
    apply foldl_insertNew_ne_nil
    simp [insertNew, Dict.contains]

theorem composedAnnotations_ne_nil (concat : Bool) (rule : IdRule) (crs : List ComposedRecord) (h : crs ≠ []) :
    composedAnnotations concat rule crs ≠ [] := by
  cases crs with
  | nil => exact absurd rfl h
  | cons c crs =>
    unfold composedAnnotations
    cases concat <;> simp

/-! ### SECTION-PROPS -/

/-- "… and sequence length", for the function the annotation path executes: `read_fasta_proteins`
    (`readProteins`, the recursion `getAnnotations` runs — it annotates every record when the reader yields
    it) is the reader `readFasta` of `sequence_length` followed by the annotation of its records, in order:
    whenever the reader succeeds the two agree (also in WHICH `int()` failure surfaces), and a reader failure
    is a failure of the annotation path -/
theorem read_proteins_is_annotated_read_fasta (concat : Bool) (rule : IdRule) (lines : List (List Char)) :
    (∀ recs, readFasta concat lines = .ok recs → readProteins concat rule lines = annotateAll rule recs) ∧
    (∀ e, readFasta concat lines = .error e → ∃ e', readProteins concat rule lines = .error e') :=
  ⟨fun recs h => readProteinsLoop_of_readLoop concat rule lines _ recs h,
   fun e h => readProteinsLoop_error_of_readLoop concat rule lines _ e h⟩

/-- "… and sequence length" on the annotation path: for a file written record by record (header line, sequence
    lines; no line ends in white space, no sequence line starts with `>`), whatever the headers are, the
    annotations `read_fasta_proteins` returns are — in file order, target then `REV__` decoy when decoys are
    generated — one per yielded record, each carrying that record's header and the total length of its sequence
    lines -/
theorem sequence_length_annotations (concat : Bool) (rule : IdRule) (recs : List FastaRecord)
    (h : ∀ r ∈ recs, r.Clean) (as : List Annotation)
    (ha : readProteins concat rule (recs.flatMap FastaRecord.lines) = .ok as) :
    as.map (fun a => (a.header, a.length)) =
      recs.flatMap (fun r =>
        if concat then [(r.header, r.seqLength), (decoyPrefix ++ r.header, r.seqLength)]
        else [(r.header, r.seqLength)]) := by
  rw [(read_proteins_is_annotated_read_fasta concat rule _).1 _ (sequence_length concat recs h)] at ha
  exact annotateAll_header_length rule _ as ha

/-- End to end: `get_protein_annotations` on ONE FASTA file whose records are composed — every header line is
    `>` + the text rendered from well-formed, blank-free fields, followed by clean sequence lines.
    With `A rule` the list of the annotations the fields stand for (`composedAnnotations`: per record, in file
    order, `expected rule f n` — identifier by the rule, accession, entry name, gene name, description,
    existence level and organism of `f`, `n` the total length of the record's sequence lines — and, when the
    FASTA file has no decoys, the same for the generated `REV__` record), the returned dictionary is
    `single (A rule)`: the FIRST record wins for a repeated identifier.  The rule is the accession / the full
    identifier; at gene level it is the gene name when more than half of the entries carry one, else the
    ordinary dictionary is kept and pseudo-genes are requested. -/
theorem annotations_of_composed_file (crs : List ComposedRecord) (hgood : ∀ c ∈ crs, c.Good) (hne : crs ≠ [])
    (containsDecoys geneLevel useUniprot : Bool) :
    let rule := if useUniprot then IdRule.accession else IdRule.full
    let A := fun r => composedAnnotations (!containsDecoys) r crs
    getAnnotations (some [composedFile crs]) containsDecoys geneLevel useUniprot =
      .ok (if geneLevel then
            (if 2 * geneCount (single (A rule)) > (single (A rule)).length then (single (A .gene), false)
             else (single (A rule), true))
           else (single (A rule), false)) ∧
    ∀ r k, Dict.get? (single (A r)) k = (A r).find? (fun a => decide (a.id = k)) := by
  intro rule A
  have hread : ∀ r, readProteins (!containsDecoys) r (composedFile crs) = .ok (A r) := by
    intro r
    have hclean : ∀ x ∈ crs.map ComposedRecord.toRecord, x.Clean := by
      intro x hx
      obtain ⟨c, hc, rfl⟩ := List.mem_map.mp hx
      exact (hgood c hc).2.2
    have hfile : composedFile crs = (crs.map ComposedRecord.toRecord).flatMap FastaRecord.lines := by
      simp [composedFile, List.flatMap_map]
    rw [hfile, (read_proteins_is_annotated_read_fasta _ r _).1 _ (sequence_length _ _ hclean)]
    exact annotateAll_composed _ r crs hgood
  have hmult : ∀ r, multiple (!containsDecoys) r [composedFile crs] = .ok (single (A r)) := by
    intro r
    rw [multiple_one, hread r]
  refine ⟨?_, fun r k => first_record_wins (A r) k⟩
  have hd := hmult rule
  have hdne : single (A rule) ≠ [] := single_ne_nil _ (composedAnnotations_ne_nil _ rule crs hne)
  obtain ⟨h1, h2, h3⟩ := gene_level_switch [composedFile crs] containsDecoys useUniprot (single (A rule)) hd hdne
  cases geneLevel
  · simpa using h3
  · simp only [if_true]
    by_cases hg : 2 * geneCount (single (A rule)) > (single (A rule)).length
    · rw [h1 hg, hmult .gene]; simp [hg]
    · rw [h2 (by omega)]; simp [hg]

/-- the same, record by record and field by field: "the parsed protein identifier, accession, entry name, gene
    name, description, existence level, organism (for headers that carry a gene name) and sequence length equal
    the fields the header was composed of, and within one file the first record wins" — for the dictionary
    `get_protein_annotations` returns (protein level).  A composed record `c` none of whose predecessors in the file
    (their generated decoys included) has its identifier is found under its identifier — the accession with
    `--fasta_use_uniprot_id`, the full `db|ACC|ENTRY` otherwise — and the entry holds `c`'s header text, its eight
    fields, and is what the character-level parsers (`annotateChar`, the mirror of the Python expressions) make
    of the header text. -/
theorem annotations_of_composed_record (pre post : List ComposedRecord) (c : ComposedRecord)
    (hgood : ∀ x ∈ pre ++ c :: post, x.Good) (containsDecoys useUniprot : Bool)
    (hfirst : ∀ a ∈ composedAnnotations (!containsDecoys) (if useUniprot then .accession else .full) pre,
        a.id ≠ some (if useUniprot then c.fields.acc else c.fields.ident)) :
    ∃ d a, getAnnotations (some [composedFile (pre ++ c :: post)]) containsDecoys false useUniprot = .ok (d, false) ∧
      Dict.get? d (some (if useUniprot then c.fields.acc else c.fields.ident)) = some a ∧
      a.header = render c.fields ∧
      a.id = some (if useUniprot then c.fields.acc else c.fields.ident) ∧
      a.uniprotId = c.fields.acc ∧ a.entryName = c.fields.entry ∧ a.geneName = c.fields.gene ∧
      a.description = unwords c.fields.desc ∧ a.existence = some c.fields.pe ∧
      a.length = (c.seqLines.map List.length).sum ∧
      (∀ g, c.fields.gene = some g → a.organism = some (unwords (c.fields.org ++ [OX ++ c.fields.ox]))) ∧
      annotateChar (if useUniprot then .accession else .full) (render c.fields) a.length = .ok a := by
  obtain ⟨hrun, hget⟩ := annotations_of_composed_file (pre ++ c :: post) hgood (by simp) containsDecoys false useUniprot
  simp only [Bool.false_eq_true, if_false] at hrun
  obtain ⟨hw, hb, -⟩ := hgood c (by simp)
  refine ⟨_, expected (if useUniprot then .accession else .full) c.fields c.toRecord.seqLength, hrun, ?_, rfl, ?_,
    rfl, rfl, rfl, rfl, rfl, rfl, ?_, ?_⟩
  · have hget' : ∀ k, Dict.get? (single (composedAnnotations (!containsDecoys)
          (if useUniprot then IdRule.accession else IdRule.full) (pre ++ c :: post))) k =
        (composedAnnotations (!containsDecoys) (if useUniprot then IdRule.accession else IdRule.full)
          (pre ++ c :: post)).find? (fun a => decide (a.id = k)) := fun k => hget _ k
    rw [hget']
    have hsplit : composedAnnotations (!containsDecoys) (if useUniprot then IdRule.accession else IdRule.full)
          (pre ++ c :: post) =
        composedAnnotations (!containsDecoys) (if useUniprot then .accession else .full) pre ++
          (expected (if useUniprot then .accession else .full) c.fields c.toRecord.seqLength ::
            ((if (!containsDecoys) = true then
                [expected (if useUniprot then .accession else .full) (decoyFields c.fields) c.toRecord.seqLength]
              else []) ++
              composedAnnotations (!containsDecoys) (if useUniprot then .accession else .full) post)) := by
      unfold composedAnnotations
      rw [List.flatMap_append, List.flatMap_cons]
      cases containsDecoys <;> simp
    rw [hsplit, List.find?_append]
    have hnone : List.find? (fun a => decide (a.id = some (if useUniprot then c.fields.acc else c.fields.ident)))
        (composedAnnotations (!containsDecoys) (if useUniprot then .accession else .full) pre) = none := by
      rw [List.find?_eq_none]
      intro a ha
      simpa using hfirst a ha
    rw [hnone]
    cases useUniprot <;> simp [List.find?, expected]
  · cases useUniprot <;> rfl
  · intro g hg
    simp [expected, hg]
  · rw [annotateChar_eq]
    exact annotate_render _ c.fields hw hb _

/-! Non-vacuity: a file of three composed records — the record of the examples above with a wrapped sequence, a
second protein without gene name, and a REPEAT of the first identifier with another description — satisfies `Good`;
the dictionary has the first record under the repeated identifier, with the length 7 of its two sequence lines. -/

-- SCRATCH-ONLY-BEGIN
private def ex : Fields :=
  { db := "sp".toList, acc := "P00167-2".toList, entry := "CYB5_HUMAN".toList,
    desc := ["Cytochrome".toList, "b5".toList, "[isoform".toList, "2]".toList, "OS".toList, "GN".toList, "PE".toList],
    org := ["Homo".toList, "sapiens".toList], ox := "9606".toList, gene := some "CYB5A".toList, pe := 1,
    sv := "2".toList }
-- SCRATCH-ONLY-END
private def exRec1 : ComposedRecord := { fields := ex, seqLines := ["MAEQ".toList, "SDK".toList] }
private def exRec2 : ComposedRecord :=
  { fields := { ex with acc := "Q9Y6K9".toList, entry := "NEMO_HUMAN".toList, desc := ["NEMO".toList], gene := none },
    seqLines := ["MNRHLWK".toList] }
private def exRec3 : ComposedRecord := { fields := { ex with desc := ["duplicate".toList] }, seqLines := ["MM".toList] }

private theorem exGood : ∀ c ∈ [exRec1, exRec2, exRec3], c.Good := by
  have hclean : ∀ (f : Fields) (sl : List (List Char)), rstrip ('>' :: render f) = '>' :: render f →
      render f ≠ [] → (∀ l ∈ sl, rstrip l = l ∧ l.head? ≠ some '>') →
      (ComposedRecord.toRecord { fields := f, seqLines := sl }).Clean := fun f sl h1 h2 h3 => ⟨h2, h1, h3⟩
  intro c hc
  simp only [List.mem_cons, List.not_mem_nil, or_false] at hc
  rcases hc with rfl | rfl | rfl
  all_goals
    refine ⟨by constructor <;> decide +kernel,
      by constructor <;> first | decide +kernel | (intro g hg; cases hg; decide +kernel) | (intro g hg; cases hg), ?_⟩
    exact hclean _ _ (by decide +kernel) (by decide +kernel) (by decide +kernel)

example : ∃ d a, getAnnotations (some [composedFile [exRec1, exRec2, exRec3]]) true false true = .ok (d, false) ∧
    Dict.get? d (some "P00167-2".toList) = some a ∧ a.length = 7 ∧
    a.description = "Cytochrome b5 [isoform 2] OS GN PE".toList := by
  obtain ⟨d, a, h1, h2, -, -, -, -, -, h3, -, h4, -, -⟩ :=
    annotations_of_composed_record [] [exRec2, exRec3] exRec1 exGood true true (by simp [composedAnnotations])
  exact ⟨d, a, h1, h2, by rw [h4]; decide +kernel, by rw [h3]; decide +kernel⟩

end PgFdr.C19
