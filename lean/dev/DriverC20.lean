import PgFdr.DriverMain
import PgFdr.Driver.C20
/-! Private single-property driver for development (C20). -/
def main : IO Unit := PgFdr.runHandlers PgFdr.Driver.handlersC20
