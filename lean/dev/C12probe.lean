import PgFdr.Proofs.C12
open PgFdr.C12 PgFdr.C17
def r1 : Row := { id := 0, peptide := "AAK", charge := 2, experiment := "E1", fraction := "-1", leading := ["P1"], intensity := some 100, pep := .fin (1/1000), silac := [60, 40], tmt := [] }
def r2 : Row := { id := 1, peptide := "AAK", charge := 2, experiment := "E2", fraction := "-1", leading := ["P1","REV__P9"], intensity := some 50, pep := .nan, silac := [30, 20], tmt := [] }
def r3 : Row := { id := 2, peptide := "CCK", charge := 2, experiment := "E2", fraction := "-1", leading := ["P1","P3"], intensity := some 7, pep := .fin (1/1000), silac := [3, 4], tmt := [] }
example : expIdx ["E1","E2"] "E2" = some 1 := by decide +kernel
example : experiments [r1, r2, r3] = ["E1","E2"] := by decide +kernel
example : attachTo [["P1","P2"],["P3"]] r2 = [0] := by decide +kernel
example : attachTo [["P1","P2"],["P3"]] r3 = [] := by decide +kernel
example : intensities ["E1","E2"] 2 (1/100) [r1, r2] = [100, 60, 40, 50, 30, 20] := by decide +kernel
example : (quantifyWith 2 [r1,r2,r3] [["P1","P2"],["P3"]] (1/100) [("P1", 3)]).groups.map (·.total) = [150] := by decide +kernel
