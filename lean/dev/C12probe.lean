#check @List.modify
#check @List.getElem?_modify
#check @List.length_modify
#check @List.getD_eq_getElem?_getD
#check @List.eraseDups_cons
#check @List.foldl_append
#check @List.sum_append
#check @List.getElem?_set
#check @List.getElem?_replicate
#check @List.zipIdx
example : (decide ("a" < "b")) = true := by decide
#eval [1,2,3].modify 1 (· + 10)
#print List.modify
#check @String.lt_irrefl
#check (inferInstance : DecidableEq Rat)
