import PgFdr.Proofs.C11
import Mathlib.Algebra.Order.Field.Basic
import Mathlib.Algebra.BigOperators.Group.List.Basic
import Mathlib.Data.Real.Basic
import Mathlib.Algebra.Order.BigOperators.Group.List
set_option linter.unusedSectionVars false
namespace PgFdr.C11

/-! ### after the solve -/
section Final
variable {α : Type} [Field α] [LinearOrder α] [IsStrictOrderedRing α] [inst : DecidableLT α]

theorem vsum_mul_left (n : Nat) (c : α) (v : Nat → α) : vsum n (fun s => c * v s) = c * vsum n v := by
  unfold vsum
  induction (List.range n) with
  | nil => simp
  | cons a r ih => simp only [List.map_cons, List.sum_cons, ih, mul_add]

theorem vsum_nonneg (n : Nat) (v : Nat → α) (h : ∀ s, 0 ≤ v s) : 0 ≤ vsum n v := by
  unfold vsum
  apply List.sum_nonneg
  intro x hx
  obtain ⟨s, _, rfl⟩ := List.mem_map.mp hx
  exact h s

theorem vsum_eq_zero_of_nonneg (n : Nat) (v : Nat → α) (h : ∀ s, 0 ≤ v s) (h0 : vsum n v ≤ 0) :
    ∀ s, s < n → v s = 0 := by
  unfold vsum at h0
  intro s hs
  have hmem : v s ∈ (List.range n).map v := List.mem_map_of_mem (List.mem_range.mpr hs)
  have hle : v s ≤ ((List.range n).map v).sum := by
    apply List.single_le_sum _ _ hmem
    intro x hx
    obtain ⟨t, _, rfl⟩ := List.mem_map.mp hx
    exact h t
  exact le_antisymm (le_trans hle h0) (h s)

theorem scaleEqualSum_apply (n : Nat) (tot : α) (v : Nat → α) (h : 0 < vsum n v) (s : Nat) :
    scaleEqualSum n tot v s = tot / vsum n v * v s := by
  unfold scaleEqualSum; rw [if_pos h]

/-- `_scaleEqualSum` preserves the total whenever something is positive -/
theorem vsum_scaleEqualSum (n : Nat) (tot : α) (v : Nat → α) (h : 0 < vsum n v) :
    vsum n (scaleEqualSum n tot v) = tot := by
  have : scaleEqualSum n tot v = fun s => tot / vsum n v * v s := by
    funext s; exact scaleEqualSum_apply n tot v h s
  rw [this, vsum_mul_left, div_mul_cancel₀ _ h.ne']

theorem zeroed_nonneg (zero : List Nat) (v : Nat → α) (h : ∀ s, 0 ≤ v s) (s : Nat) : 0 ≤ zeroed zero v s := by
  unfold zeroed; split
  · exact le_refl _
  · exact h s

theorem lfq_sum_preserved (n : Nat) (zero : List Nat) (tot : α) (v : Nat → α) (hv : ∀ s, 0 ≤ v s)
    (hpos : ∃ s, s < n ∧ 0 < lfq n zero tot v s) : vsum n (lfq n zero tot v) = tot := by
  unfold lfq
  by_cases h : 0 < vsum n (zeroed zero v)
  · exact vsum_scaleEqualSum n tot _ h
  · exfalso
    obtain ⟨s, hs, hps⟩ := hpos
    unfold lfq scaleEqualSum at hps
    rw [if_neg h] at hps
    have := vsum_eq_zero_of_nonneg n _ (zeroed_nonneg zero v hv) (not_lt.mp h) s hs
    rw [this] at hps
    exact lt_irrefl _ hps

theorem lfq_zero_of_mem (n : Nat) (zero : List Nat) (tot : α) (v : Nat → α) {z : Nat} (hz : z ∈ zero) :
    lfq n zero tot v z = 0 := by
  have hz0 : zeroed zero v z = 0 := by
    unfold zeroed; rw [if_pos (List.contains_iff_mem.mpr hz)]
  unfold lfq scaleEqualSum
  split
  · simp only [hz0, mul_zero]
  · exact hz0

theorem lfq_scale_total (n : Nat) (zero : List Nat) (c tot : α) (v : Nat → α) (hv : ∀ s, 0 ≤ v s)
    (s : Nat) (hs : s < n) : lfq n zero (c * tot) v s = c * lfq n zero tot v s := by
  unfold lfq scaleEqualSum
  split
  · ring
  · rename_i h
    rw [vsum_eq_zero_of_nonneg n _ (zeroed_nonneg zero v hv) (not_lt.mp h) s hs, mul_zero]

end Final

example (n : Nat) (zero : List Nat) (tot : Rat) (v : Nat → Rat) (hv : ∀ s, 0 ≤ v s)
    (hpos : ∃ s, s < n ∧ 0 < lfq n zero tot v s) : vsum n (lfq n zero tot v) = tot :=
  lfq_sum_preserved n zero tot v hv hpos

noncomputable example (n : Nat) (zero : List Nat) (tot : ℝ) (v : Nat → ℝ) (hv : ∀ s, 0 ≤ v s)
    (hpos : ∃ s, s < n ∧ 0 < lfq n zero tot v s) : vsum n (lfq n zero tot v) = tot :=
  lfq_sum_preserved n zero tot v hv hpos

end PgFdr.C11
