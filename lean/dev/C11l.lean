import PgFdr.Proofs.C11
namespace PgFdr.C11

theorem zip_map_same {α β γ : Type} (f : α → β) (g : α → γ) : ∀ l : List α,
    (l.map f).zip (l.map g) = l.map (fun a => (f a, g a))
  | [] => rfl
  | a :: r => by simp [zip_map_same f g r]

/-- consistent data in cell form: every quantified cell is `f k · g s` -/
theorem ratio_of_consistent_cells (sel : List Prec) (f : String × Int → Rat) (g : Nat → Rat)
    (hf : ∀ k, f k ≠ 0) (i j : Nat)
    (hc : ∀ k ∈ rowKeys sel, ∀ s, cell sel k s = 0 ∨ cell sel k s = f k * g s)
    (hsh : 0 < shared (column sel i) (column sel j)) : ratio (column sel) i j = g i / g j := by
  apply ratio_of_consistent hsh
  intro ab hab h1 h2
  unfold column at hab
  rw [zip_map_same] at hab
  obtain ⟨k, hk, rfl⟩ := List.mem_map.mp hab
  simp only at h1 h2 ⊢
  rcases hc k hk i with h | h
  · exact absurd h h1
  · rcases hc k hk j with h' | h'
    · exact absurd h' h2
    · rw [h, h', mul_div_mul_left _ _ (hf k)]

theorem shared_pos_of_pairOk {m : Nat} (hm : 1 ≤ m) {g : Option (List (Nat × Nat))} {ms nv : Nat}
    {col : Nat → List Rat} {i j : Nat} (h : pairOk m g ms nv col i j = true) : 0 < shared (col i) (col j) := by
  unfold pairOk at h
  simp only [Bool.and_eq_true, decide_eq_true_eq] at h
  omega

end PgFdr.C11
