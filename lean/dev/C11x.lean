import PgFdr.Proofs.C11
namespace PgFdr.C11

/-! ### stage A with a given selection -/

theorem stageA_eq_with (o : Opts) (l : List Prec) : stageA o l = stageAWith o (selected o.cutoff l) l := rfl

theorem stageAWith_eqs_pairs (o : Opts) (sel lstab : List Prec) :
    (stageAWith o sel lstab).eqs.map (fun q => (q.i, q.j)) =
      pairs o.minRatios o.n o.graph o.minSamples (column sel) := by
  unfold stageAWith
  simp only [List.map_map]
  conv_rhs => rw [← List.map_id (pairs _ _ _ _ _)]
  apply List.map_congr_left
  intro e _
  simp [pairEq]

theorem stageAWith_system (o : Opts) (sel lstab : List Prec) :
    (stageAWith o sel lstab).system = buildSystem o.n ((stageAWith o sel lstab).eqs.map (fun q => (q.i, q.j))) := by
  rw [stageAWith_eqs_pairs]; rfl

theorem stageAWith_eq_mem (o : Opts) (sel lstab : List Prec) (q : PairEq) (hq : q ∈ (stageAWith o sel lstab).eqs) :
    q.i < q.j ∧ q.j < o.n ∧
    pairOk o.minRatios o.graph o.minSamples (numValid o.minRatios o.n (column sel)) (column sel) q.i q.j = true ∧
    q.ratio = ratio (column sel) q.i q.j ∧ (o.stab = false → q.w = 0) := by
  unfold stageAWith at hq
  simp only [List.mem_map] at hq
  obtain ⟨e, he, rfl⟩ := hq
  rw [mem_pairs] at he
  refine ⟨he.1, he.2.1, he.2.2, rfl, ?_⟩
  intro hs
  simp [pairEq, hs]

theorem rhs_of_consistent_with (o : Opts) (sel lstab : List Prec) (hstab : o.stab = false) (hm : 1 ≤ o.minRatios)
    (f : String × Int → Rat) (g : Nat → Rat) (hf : ∀ k, f k ≠ 0) (hg : ∀ s, 0 < g s)
    (hc : ∀ k ∈ rowKeys sel, ∀ s, s < o.n → cell sel k s = 0 ∨ cell sel k s = f k * g s) :
    ∀ q ∈ (stageAWith o sel lstab).eqs, rhs q = Real.log ((g q.i : ℝ)) - Real.log ((g q.j : ℝ)) := by
  intro q hq
  obtain ⟨h1, h2, hok, hr, hw⟩ := stageAWith_eq_mem o sel lstab q hq
  have hratio : q.ratio = g q.i / g q.j := by
    rw [hr]
    exact ratio_of_consistent_cells _ o.n f g hf q.i q.j (by omega) h2 hc (shared_pos_of_pairOk hm hok)
  unfold rhs
  rw [hw hstab, hratio]
  have h1 : ((g q.i : ℚ) : ℝ) ≠ 0 := by exact_mod_cast (hg q.i).ne'
  have h2 : ((g q.j : ℚ) : ℝ) ≠ 0 := by exact_mod_cast (hg q.j).ne'
  push_cast
  rw [Real.log_div h1 h2]
  ring

theorem consistent_lfq_with (o : Opts) (sel lstab : List Prec) (hn : 2 ≤ o.n) (hstab : o.stab = false)
    (hm : 1 ≤ o.minRatios) (f : String × Int → Rat) (g : Nat → Rat) (hf : ∀ k, f k ≠ 0)
    (hg : ∀ s, 0 < g s)
    (hc : ∀ k ∈ rowKeys sel, ∀ s, s < o.n → cell sel k s = 0 ∨ cell sel k s = f k * g s)
    (y : Nat → ℝ) (hls : IsLeastSquares (stageAWith o sel lstab).eqs (stageAWith o sel lstab).system y)
    (i0 : Nat) (hconn : ∀ s, s < o.n → Linked (stageAWith o sel lstab).eqs i0 s)
    (s : Nat) (hs : s < o.n) :
    lfq o.n (stageAWith o sel lstab).system.zeroCols ((stageAWith o sel lstab).total : ℝ) (fun t => Real.exp (y t)) s =
      ((stageAWith o sel lstab).total : ℝ) * (g s : ℝ) / vsum o.n (fun t => (g t : ℝ)) := by
  have hlt : ∀ q ∈ (stageAWith o sel lstab).eqs, q.i < o.n ∧ q.j < o.n := by
    intro q hq
    have := stageAWith_eq_mem o sel lstab q hq
    omega
  have hcons := rhs_of_consistent_with o sel lstab hstab hm f g hf hg hc
  rw [stageAWith_system] at hls ⊢
  exact consistent_lfq_aux o.n hn _ hlt (fun t => (g t : ℝ)) (fun t => by exact_mod_cast hg t) y hcons hls
    i0 hconn _ s hs

/-! ### selection on rows = selection on their base fields -/

theorem insertBy_map_base (a : Row) : ∀ l : List Row,
    (insertBy rowLe a l).map Row.base = insertBy precLe a.base (l.map Row.base)
  | [] => rfl
  | b :: r => by
    have ih := insertBy_map_base a r
    by_cases h : precLe a.base b.base = true
    · have h' : rowLe a b = true := h
      simp [insertBy, h, h']
    · have h' : ¬ rowLe a b = true := h
      simp [insertBy, h, h', ih]

theorem isort_map_base : ∀ l : List Row, (isort rowLe l).map Row.base = isort precLe (l.map Row.base)
  | [] => rfl
  | a :: r => by simp [isort, insertBy_map_base, isort_map_base r]

theorem firstsAuxR_map_base : ∀ (l : List Row) (prev : Option Row),
    (firstsAuxR prev l).map Row.base = firstsAux (prev.map Row.base) (l.map Row.base)
  | [], prev => by cases prev <;> rfl
  | p :: r, none => by simp [firstsAuxR, firstsAux, firstsAuxR_map_base r (some p)]
  | p :: r, some q => by
    simp only [firstsAuxR, firstsAux, List.map_cons, Option.map_some]
    split
    · exact firstsAuxR_map_base r (some q)
    · simp [firstsAuxR_map_base r (some p)]

theorem selectedRows_base (c : Rat) (l : List Row) :
    (selectedRows c l).map Row.base = selected c (l.map Row.base) := by
  unfold selectedRows selected
  rw [firstsAuxR_map_base, isort_map_base, List.filter_map]
  rfl


/-! ### label-free tables: nothing new -/

theorem flatMap_expandRow_zero (rs : List Row) : rs.flatMap (expandRow 0) = rs.map Row.base := by
  induction rs with
  | nil => rfl
  | cons r rs ih => simp [List.flatMap_cons, expandRow, ih]

theorem tableStageA_labelfree (o : Opts) (rows : List Row) :
    tableStageA o 0 rows = stageA o ((retainIdentified o.cutoff rows).map Row.base) := by
  unfold tableStageA tableSel tableStab
  rw [flatMap_expandRow_zero, flatMap_expandRow_zero, selectedRows_base, stageA_eq_with]
  have : ({ o with n := numSamples o.n 0 } : Opts) = o := by
    cases o; simp [numSamples]
  rw [this]

/-! ### SILAC: what the cell of a labelled sample holds -/

theorem cell_nil (k : String × Int) (s : Nat) : cell [] k s = 0 := rfl

theorem cell_append (a b : List Prec) (k : String × Int) (s : Nat) : cell (a ++ b) k s = cell a k s + cell b k s := by
  unfold cell
  rw [List.filter_append, List.map_append, List.sum_append]

theorem total_append (a b : List Prec) : total (a ++ b) = total a + total b := by
  unfold total
  rw [List.map_append, List.sum_append]

theorem cell_flatMap (f : Row → List Prec) (k : String × Int) (s : Nat) : ∀ rs : List Row,
    cell (rs.flatMap f) k s = (rs.map (fun r => cell (f r) k s)).sum
  | [] => rfl
  | r :: rs => by simp [List.flatMap_cons, cell_append, cell_flatMap f k s rs]

theorem total_flatMap (f : Row → List Prec) : ∀ rs : List Row,
    total (rs.flatMap f) = (rs.map (fun r => total (f r))).sum
  | [] => rfl
  | r :: rs => by simp [List.flatMap_cons, total_append, total_flatMap f rs]

/-- the entries of one precursor: channel `c` (counted from the offset `c0`) goes to sample `e * C + c` -/
theorem cell_expandFrom (b : Prec) (C : Nat) (k : String × Int) (e c : Nat) (hc : c < C) :
    ∀ (xs : List Rat) (c0 : Nat), c0 + xs.length ≤ C →
      cell (expandFrom b C c0 xs) k (e * C + c) =
        if (b.peptide, b.charge) = k ∧ b.exp = e ∧ c0 ≤ c then xs.getD (c - c0) 0 else 0
  | [], c0, _ => by simp [expandFrom, cell_nil]
  | x :: xs, c0, h => by
    have hlen : c0 + 1 + xs.length ≤ C := by simp at h; omega
    have ih := cell_expandFrom b C k e c hc xs (c0 + 1) hlen
    have hc0 : c0 < C := by simp at h; omega
    rw [expandFrom, cell_cons, ih]
    simp only
    have hidx : b.exp * C + c0 = e * C + c ↔ b.exp = e ∧ c0 = c := by
      constructor
      · intro heq
        have h1 : (b.exp * C + c0) / C = (e * C + c) / C := by rw [heq]
        have h2 : (b.exp * C + c0) % C = (e * C + c) % C := by rw [heq]
        rw [Nat.mul_comm b.exp, Nat.mul_comm e, Nat.mul_add_div (by omega), Nat.mul_add_div (by omega),
          Nat.div_eq_of_lt hc0, Nat.div_eq_of_lt hc] at h1
        rw [Nat.mul_comm b.exp, Nat.mul_comm e, Nat.mul_add_mod, Nat.mul_add_mod,
          Nat.mod_eq_of_lt hc0, Nat.mod_eq_of_lt hc] at h2
        omega
      · rintro ⟨rfl, rfl⟩; rfl
    by_cases hk : (b.peptide, b.charge) = k
    · by_cases he : b.exp = e
      · rcases Nat.lt_trichotomy c0 c with hlt | heq | hgt
        · have hne : c0 ≠ c := by omega
          have hsub : c - c0 = (c - (c0 + 1)) + 1 := by omega
          simp [hk, he, hne, hlt.le, Nat.succ_le_of_lt hlt, hsub]
        · subst heq
          have : b.exp * C + c0 = e * C + c0 := by rw [he]
          simp [hk, he]
        · have hne : c0 ≠ c := by omega
          have h1 : ¬ c0 ≤ c := by omega
          have h2 : ¬ c0 + 1 ≤ c := by omega
          simp [hk, he, hne, h1, h2]
      · have : ¬ (b.exp * C + c0 = e * C + c) := by rw [hidx]; tauto
        simp [hk, he, this]
    · simp [hk]


theorem cell_expandRow_silac {C : Nat} (hC : 0 < C) (r : Row) (hlen : r.silac.length ≤ C) (k : String × Int)
    (e c : Nat) (hc : c < C) :
    cell (expandRow C r) k (e * C + c) =
      if (r.base.peptide, r.base.charge) = k ∧ r.base.exp = e then r.silac.getD c 0 else 0 := by
  unfold expandRow
  rw [if_neg (by omega), cell_expandFrom r.base C k e c hc r.silac 0 (by omega)]
  simp

/-- SILAC: the cell of row key `k` in the column of the labelled sample (experiment `e`, channel `c`) is the sum of
    the channel-`c` intensities of the given rows of that key and experiment -/
theorem cell_silac {C : Nat} (hC : 0 < C) (rs : List Row) (hlen : ∀ r ∈ rs, r.silac.length ≤ C)
    (k : String × Int) (e c : Nat) (hc : c < C) :
    cell (rs.flatMap (expandRow C)) k (e * C + c) =
      ((rs.filter (fun r => (r.base.peptide, r.base.charge) == k && r.base.exp == e)).map
        (fun r => r.silac.getD c 0)).sum := by
  rw [cell_flatMap]
  induction rs with
  | nil => rfl
  | cons r rs ih =>
    have ih' := ih (fun x hx => hlen x (List.mem_cons_of_mem _ hx))
    rw [List.map_cons, List.sum_cons, ih', cell_expandRow_silac hC r (hlen r List.mem_cons_self) k e c hc,
      List.filter_cons]
    by_cases h : (r.base.peptide, r.base.charge) = k ∧ r.base.exp = e
    · simp [h]
    · have : ((r.base.peptide, r.base.charge) == k && r.base.exp == e) = false := by
        rw [Bool.eq_false_iff]; intro hc'; apply h; simpa using hc'
      simp [h, this]

theorem total_expandFrom (b : Prec) (C : Nat) : ∀ (xs : List Rat) (c0 : Nat), total (expandFrom b C c0 xs) = xs.sum
  | [], _ => rfl
  | x :: xs, c0 => by
    have ih := total_expandFrom b C xs (c0 + 1)
    unfold total at ih ⊢
    simp [expandFrom, ih]

/-- SILAC: `totalIntensity` is the sum of all channel intensities of the given rows -/
theorem total_silac {C : Nat} (hC : 0 < C) (rs : List Row) :
    total (rs.flatMap (expandRow C)) = (rs.map (fun r => r.silac.sum)).sum := by
  rw [total_flatMap]
  congr 1
  apply List.map_congr_left
  intro r _
  unfold expandRow
  rw [if_neg (by omega), total_expandFrom]

theorem mem_expandFrom (b : Prec) (C : Nat) (p : Prec) : ∀ (xs : List Rat) (c0 : Nat), p ∈ expandFrom b C c0 xs →
    p.peptide = b.peptide ∧ p.charge = b.charge ∧ p.fraction = b.fraction ∧ p.pep = b.pep ∧
      ∃ c, c0 ≤ c ∧ c < c0 + xs.length ∧ p.exp = b.exp * C + c ∧ p.intensity = xs.getD (c - c0) 0
  | [], _, h => by simp [expandFrom] at h
  | x :: xs, c0, h => by
    rw [expandFrom, List.mem_cons] at h
    rcases h with rfl | h
    · exact ⟨rfl, rfl, rfl, rfl, c0, le_refl _, by simp, rfl, by simp⟩
    · obtain ⟨h1, h2, h3, h4, c, hc1, hc2, hc3, hc4⟩ := mem_expandFrom b C p xs (c0 + 1) h
      refine ⟨h1, h2, h3, h4, c, by omega, by simp; omega, hc3, ?_⟩
      have : c - c0 = (c - (c0 + 1)) + 1 := by omega
      rw [hc4, this, List.getD_cons_succ]

/-- every entry of the expanded rows is a sample `< n * max 1 C` -/
theorem exp_lt_of_mem_expandRow {n C : Nat} (r : Row) (hn : r.base.exp < n) (hlen : r.silac.length ≤ C) (p : Prec)
    (hp : p ∈ expandRow C r) : p.exp < numSamples n C := by
  unfold expandRow at hp
  unfold numSamples
  by_cases hC : C = 0
  · subst hC
    simp at hp
    subst hp
    simpa using hn
  · rw [if_neg hC] at hp
    obtain ⟨_, _, _, _, c, _, hc2, hc3, _⟩ := mem_expandFrom r.base C p r.silac 0 hp
    have hmax : max 1 C = C := by omega
    rw [hmax, hc3]
    have : (r.base.exp + 1) * C ≤ n * C := Nat.mul_le_mul_right C hn
    have h2 : (r.base.exp + 1) * C = r.base.exp * C + C := by ring
    omega


/-! ### header names and values: the same enumeration of the samples -/

/-- position `i * C + c` of a concatenation of blocks of length `C` is position `c` of block `i` -/
theorem getElem?_flatMap_block {α β : Type} (f : α → List β) (C : Nat) : ∀ (l : List α),
    (∀ a ∈ l, (f a).length = C) → ∀ (i c : Nat), c < C →
      (l.flatMap f)[i * C + c]? = (l[i]?).bind (fun a => (f a)[c]?)
  | [], _, i, c, _ => by simp
  | a :: l, hlen, 0, c, hc => by
    have h : c < (f a).length := by rw [hlen a List.mem_cons_self]; exact hc
    simp [List.flatMap_cons, List.getElem?_append_left h]
  | a :: l, hlen, i + 1, c, hc => by
    have ha : (f a).length = C := hlen a List.mem_cons_self
    have ih := getElem?_flatMap_block f C l (fun x hx => hlen x (List.mem_cons_of_mem _ hx)) i c hc
    have hidx : (i + 1) * C + c = (f a).length + (i * C + c) := by rw [ha]; ring
    rw [List.flatMap_cons, hidx, List.getElem?_append_right (by omega)]
    simpa using ih

theorem length_flatMap_block {α β : Type} (f : α → List β) (C : Nat) : ∀ (l : List α),
    (∀ a ∈ l, (f a).length = C) → (l.flatMap f).length = l.length * C
  | [], _ => by simp
  | a :: l, hlen => by
    have ih := length_flatMap_block f C l (fun x hx => hlen x (List.mem_cons_of_mem _ hx))
    rw [List.flatMap_cons, List.length_append, ih, hlen a List.mem_cons_self, List.length_cons]
    ring

/-- the header block of one experiment -/
def headerBlock (chans : List (List Char)) (e : List Char) : List (List Char) :=
  if chans.isEmpty then [lfqHeader none e] else chans.map (fun c => lfqHeader (some c) e)

theorem lfqHeaders_eq (chans exps : List (List Char)) : lfqHeaders chans exps = exps.flatMap (headerBlock chans) := rfl

theorem length_headerBlock (chans : List (List Char)) (e : List Char) :
    (headerBlock chans e).length = max 1 chans.length := by
  unfold headerBlock
  cases chans with
  | nil => rfl
  | cons c cs => simp

/-- no value without a header and no header without a value -/
theorem length_lfqHeaders (chans exps : List (List Char)) :
    (lfqHeaders chans exps).length = numSamples exps.length chans.length := by
  rw [lfqHeaders_eq, length_flatMap_block _ _ exps (fun a _ => length_headerBlock chans a)]
  rfl

theorem length_lfqValues {α : Type} (n C : Nat) (v : Nat → α) : (lfqValues n C v).length = numSamples n C := by
  simp [lfqValues]

theorem getElem?_lfqValues {α : Type} (n C : Nat) (v : Nat → α) (s : Nat) (hs : s < numSamples n C) :
    (lfqValues n C v)[s]? = some (v s) := by
  simp [lfqValues, hs]

/-- the header at position `e * max 1 C + c` names experiment `e`, channel `c` -/
theorem getElem?_lfqHeaders (chans exps : List (List Char)) (e c : Nat) (he : e < exps.length)
    (hc : c < max 1 chans.length) :
    (lfqHeaders chans exps)[e * max 1 chans.length + c]? =
      some (if chans.isEmpty then lfqHeader none (exps.getD e []) else lfqHeader (some (chans.getD c [])) (exps.getD e [])) := by
  rw [lfqHeaders_eq, getElem?_flatMap_block _ _ exps (fun a _ => length_headerBlock chans a) e c hc]
  rw [List.getElem?_eq_getElem he]
  simp only [Option.bind_some, List.getD_eq_getElem?_getD, List.getElem?_eq_getElem he, Option.getD_some]
  unfold headerBlock
  cases chans with
  | nil =>
    have : c = 0 := by simp at hc; omega
    subst this
    simp
  | cons ch cs =>
    have hc' : c < (ch :: cs).length := by simp at hc ⊢; omega
    have hm : (List.map (fun c => lfqHeader (some c) exps[e]) (ch :: cs))[c]? =
        some (lfqHeader (some (ch :: cs)[c]) exps[e]) := by
      rw [List.getElem?_map, List.getElem?_eq_getElem hc']; rfl
    simpa [List.getElem?_eq_getElem hc'] using hm

/-- "the value under the header `LFQ Intensity <channel> <experiment>`" by POSITION: header list and value list are
    the same experiment-major enumeration of the samples, so the pair at position `e * max 1 C + c` is
    (name of sample (e, c), value of sample `e * max 1 C + c`) -/
theorem getElem?_namedColumns {α : Type} (chans exps : List (List Char)) (v : Nat → α) (e c : Nat)
    (he : e < exps.length) (hc : c < max 1 chans.length) :
    (namedColumns chans exps v)[e * max 1 chans.length + c]? =
      some (if chans.isEmpty then lfqHeader none (exps.getD e []) else lfqHeader (some (chans.getD c [])) (exps.getD e []),
            v (e * max 1 chans.length + c)) := by
  unfold namedColumns
  have hs : e * max 1 chans.length + c < numSamples exps.length chans.length := by
    unfold numSamples
    have : (e + 1) * max 1 chans.length ≤ exps.length * max 1 chans.length := Nat.mul_le_mul_right _ he
    have h2 : (e + 1) * max 1 chans.length = e * max 1 chans.length + max 1 chans.length := by ring
    omega
  rw [List.getElem?_zip_eq_some]
  exact ⟨getElem?_lfqHeaders chans exps e c he hc, getElem?_lfqValues _ _ v _ hs⟩


/-! ### reading the table back BY HEADER NAME -/

theorem lfqHeader_some_inj {a b : Char} {e e' : List Char}
    (h : lfqHeader (some [a]) e = lfqHeader (some [b]) e') : a = b ∧ e = e' := by
  unfold lfqHeader at h
  have h2 := List.append_cancel_left h
  simp at h2
  exact h2

theorem lfqHeader_none_inj {e e' : List Char} (h : lfqHeader none e = lfqHeader none e') : e = e' := by
  unfold lfqHeader at h
  exact List.append_cancel_left h

/-- distinct experiment names and distinct one-letter channel names give distinct header names -/
theorem nodup_lfqHeaders (chans exps : List (List Char)) (hexp : exps.Nodup) (hch : chans.Nodup)
    (h1 : ∀ c ∈ chans, c.length = 1) : (lfqHeaders chans exps).Nodup := by
  rw [lfqHeaders_eq, List.nodup_flatMap]
  constructor
  · intro e _
    unfold headerBlock
    split
    · simp
    · apply List.Nodup.map_on _ hch
      intro c hc c' hc' heq
      obtain ⟨a, rfl⟩ := List.length_eq_one_iff.mp (h1 c hc)
      obtain ⟨b, rfl⟩ := List.length_eq_one_iff.mp (h1 c' hc')
      rw [(lfqHeader_some_inj heq).1]
  · apply List.Pairwise.imp_of_mem _ hexp
    intro e e' _ _ hne
    unfold Function.onFun
    rw [List.disjoint_left]
    intro x hx hx'
    apply hne
    unfold headerBlock at hx hx'
    split at hx
    · rename_i hemp
      simp only [hemp, if_true, List.mem_singleton] at hx hx'
      subst hx
      exact lfqHeader_none_inj hx'
    · rename_i hemp
      simp [hemp] at hx'
      obtain ⟨c, hc, rfl⟩ := List.mem_map.mp hx
      obtain ⟨c', hc', heq⟩ := hx'
      obtain ⟨a, rfl⟩ := List.length_eq_one_iff.mp (h1 c hc)
      obtain ⟨b, rfl⟩ := List.length_eq_one_iff.mp (h1 c' hc')
      exact ((lfqHeader_some_inj heq).2).symm

theorem lookup_of_getElem? {α β : Type} [BEq α] [LawfulBEq α] : ∀ (l : List (α × β)) (k : Nat) (a : α) (b : β),
    (l.map Prod.fst).Nodup → l[k]? = some (a, b) → l.lookup a = some b
  | [], k, a, b, _, h => by simp at h
  | (a', b') :: l, 0, a, b, _, h => by
    simp at h
    obtain ⟨rfl, rfl⟩ := h
    simp [List.lookup]
  | (a', b') :: l, k + 1, a, b, hnd, h => by
    simp only [List.getElem?_cons_succ] at h
    rw [List.map_cons, List.nodup_cons] at hnd
    have hne : (a == a') = false := by
      rw [beq_eq_false_iff_ne]
      rintro rfl
      apply hnd.1
      exact List.mem_map.mpr ⟨(a, b), List.mem_of_getElem? h, rfl⟩
    rw [List.lookup, hne]
    exact lookup_of_getElem? l k a b hnd.2 h

theorem map_fst_namedColumns {α : Type} (chans exps : List (List Char)) (v : Nat → α) :
    (namedColumns chans exps v).map Prod.fst = lfqHeaders chans exps := by
  unfold namedColumns
  apply List.map_fst_zip
  rw [length_lfqHeaders, length_lfqValues]

theorem map_snd_namedColumns {α : Type} (chans exps : List (List Char)) (v : Nat → α) :
    (namedColumns chans exps v).map Prod.snd = lfqValues exps.length chans.length v := by
  unfold namedColumns
  apply List.map_snd_zip
  rw [length_lfqHeaders, length_lfqValues]


/-! ### fractions: the cell is the sum over the fractions of the best row of each fraction -/

theorem rmax_eq_left {a b : Rat} (h : b ≤ a) : rmax a b = a := by
  unfold rmax
  split
  · exact le_antisymm h ‹_›
  · rfl

theorem rmax_eq_right {a b : Rat} (h : a ≤ b) : rmax a b = b := by
  unfold rmax; rw [if_pos h]

theorem le_maxOf : ∀ (L : List Rat) (y : Rat), y ∈ L → y ≤ maxOf L
  | x :: xs, y, h => by
    rw [List.mem_cons] at h
    unfold maxOf rmax
    rcases h with rfl | h
    · split
      · assumption
      · exact le_refl _
    · have := le_maxOf xs y h
      split
      · exact this
      · exact le_trans this (le_of_lt (not_le.mp ‹_›))

theorem maxOf_nonneg : ∀ (L : List Rat), 0 ≤ maxOf L
  | [] => le_refl _
  | x :: xs => by
    have := maxOf_nonneg xs
    unfold maxOf rmax
    split
    · exact this
    · exact le_trans this (le_of_lt (not_le.mp ‹_›))

theorem maxOf_eq : ∀ (L : List Rat) (x : Rat), x ∈ L → (∀ y ∈ L, y ≤ x) → 0 ≤ x → maxOf L = x
  | [], x, h, _, _ => by cases h
  | z :: zs, x, h, hmax, h0 => by
    apply le_antisymm
    · unfold maxOf rmax
      split
      · -- maxOf zs ≤ x
        cases zs with
        | nil => exact h0
        | cons w ws =>
          -- every element of the tail is ≤ x, and the maximum of a non-empty list is one of its elements or 0
          have : ∀ (M : List Rat), (∀ y ∈ M, y ≤ x) → maxOf M ≤ x := by
            intro M
            induction M with
            | nil => intro _; exact h0
            | cons m ms ih =>
              intro hM
              unfold maxOf rmax
              split
              · exact ih (fun y hy => hM y (List.mem_cons_of_mem _ hy))
              · exact hM m List.mem_cons_self
          exact this _ (fun y hy => hmax y (List.mem_cons_of_mem _ hy))
      · exact hmax z List.mem_cons_self
    · exact le_maxOf _ _ h

/-- existence of a least element of a non-empty list for a total, transitive `le` -/
theorem exists_min {α : Type} (le : α → α → Bool) (htot : ∀ a b, le a b = true ∨ le b a = true)
    (htr : ∀ a b c, le a b = true → le b c = true → le a c = true) :
    ∀ (L : List α), L ≠ [] → ∃ m ∈ L, ∀ q ∈ L, le m q = true
  | [], h => absurd rfl h
  | [a], _ => ⟨a, List.mem_cons_self, fun q hq => by
      rw [List.mem_singleton] at hq; subst hq; rcases htot q q with h | h <;> exact h⟩
  | a :: b :: r, _ => by
    obtain ⟨m, hm, hmin⟩ := exists_min le htot htr (b :: r) (by simp)
    rcases htot a m with h | h
    · refine ⟨a, List.mem_cons_self, fun q hq => ?_⟩
      rw [List.mem_cons] at hq
      rcases hq with rfl | hq
      · rcases htot q q with h' | h' <;> exact h'
      · exact htr _ _ _ h (hmin q hq)
    · refine ⟨m, List.mem_cons_of_mem _ hm, fun q hq => ?_⟩
      rw [List.mem_cons] at hq
      rcases hq with rfl | hq
      · exact h
      · exact hmin q hq

theorem inCell_iff (k : String × Int) (s : Nat) (p : Prec) :
    inCell k s p = true ↔ (p.peptide, p.charge) = k ∧ p.exp = s := by
  simp [inCell]

/-- within one group the `orderByPEP`-least precursor has the highest intensity -/
theorem intensity_le_of_precLe {p q : Prec} (hg : sameGroup p q = true) (h : precLe p q = true) :
    q.intensity ≤ p.intensity := by
  rw [sameGroup_iff] at hg
  rw [precLe_iff] at h
  obtain ⟨e1, e2, e3, e4⟩ := hg
  rcases h with h | ⟨_, h | ⟨_, h | ⟨_, h | ⟨_, h | ⟨h, _⟩⟩⟩⟩⟩
  · exact absurd e1 (ne_of_lt h)
  · exact absurd e2 (ne_of_lt h)
  · exact absurd e3 (ne_of_lt h)
  · exact absurd e4 (ne_of_lt h)
  · exact le_of_lt h
  · exact le_of_eq h

/-- every group with an identified, quantified precursor has a selected representative -/
theorem exists_selected_of_kept (c : Rat) (l : List Prec) (q : Prec) (hq : q ∈ l) (hk : keep c q = true) :
    ∃ m ∈ selected c l, sameGroup m q = true := by
  let G := l.filter (fun p => keep c p && sameGroup q p)
  have hqG : q ∈ G := List.mem_filter.mpr ⟨hq, by simp [hk, sameGroup_refl]⟩
  obtain ⟨m, hm, hmin⟩ := exists_min precLe precLe_total precLe_trans G (List.ne_nil_of_mem hqG)
  have hm' := List.mem_filter.mp hm
  simp only [Bool.and_eq_true] at hm'
  refine ⟨m, (mem_selected c l m).mpr ⟨⟨hm'.1, hm'.2.1⟩, fun x hx hkx hg => ?_⟩, sameGroup_symm hm'.2.2⟩
  apply hmin
  exact List.mem_filter.mpr ⟨hx, by simp [hkx, sameGroup_trans hm'.2.2 hg]⟩

/-- "MaxLFQ sums a precursor's intensity over the fractions of an experiment": the cell of (precursor `k`,
    sample `s`) of the selected intensity matrix is `aggregateFractions` — for every fraction in which the precursor
    has an identified, quantified row, the highest intensity among these rows, summed over the fractions -/
theorem cell_eq_aggregateFractions (c : Rat) (l : List Prec) (k : String × Int) (s : Nat) :
    cell (selected c l) k s = aggregateFractions c l k s := by
  let S := (selected c l).filter (inCell k s)
  have hcell : cell (selected c l) k s = (S.map (·.intensity)).sum := rfl
  -- (1) each selected precursor of the cell carries the best intensity of its fraction
  have hbest : ∀ p ∈ S, p.intensity = groupBest c l k s p.fraction := by
    intro p hp
    obtain ⟨hsel, hin⟩ := List.mem_filter.mp hp
    obtain ⟨⟨hpl, hpk⟩, hleast⟩ := (mem_selected c l p).mp hsel
    symm
    unfold groupBest
    apply maxOf_eq
    · exact List.mem_map.mpr ⟨p, List.mem_filter.mpr ⟨hpl, by simp [hpk, hin]⟩, rfl⟩
    · intro y hy
      obtain ⟨q, hq, rfl⟩ := List.mem_map.mp hy
      obtain ⟨hql, hq2⟩ := List.mem_filter.mp hq
      simp only [Bool.and_eq_true, beq_iff_eq] at hq2
      have hg : sameGroup p q = true := by
        rw [sameGroup_iff]
        have h1 := (inCell_iff k s p).mp hin
        have h2 := (inCell_iff k s q).mp hq2.1.2
        have h3 : (p.peptide, p.charge) = (q.peptide, q.charge) := h1.1.trans h2.1.symm
        exact ⟨(Prod.mk.inj h3).1, (Prod.mk.inj h3).2, h1.2.trans h2.2.symm, hq2.2.symm⟩
      exact intensity_le_of_precLe hg (hleast q hql hq2.1.1 hg)
    · unfold keep at hpk
      simp only [Bool.and_eq_true, decide_eq_true_eq] at hpk
      exact le_of_lt hpk.1
  -- (2) one selected precursor per fraction
  have hnd : (S.map (·.fraction)).Nodup := by
    unfold List.Nodup
    rw [List.pairwise_map]
    have hpw := (selected_pairwise c l).filter (inCell k s)
    refine List.Pairwise.imp_of_mem ?_ hpw
    intro a b ha hb hab heq
    have h1 := (inCell_iff k s a).mp (List.mem_filter.mp ha).2
    have h2 := (inCell_iff k s b).mp (List.mem_filter.mp hb).2
    have h3 : (a.peptide, a.charge) = (b.peptide, b.charge) := h1.1.trans h2.1.symm
    have : sameGroup a b = true := by
      rw [sameGroup_iff]
      exact ⟨(Prod.mk.inj h3).1, (Prod.mk.inj h3).2, h1.2.trans h2.2.symm, heq⟩
    rw [this] at hab
    exact absurd hab (by simp)
  -- (3) every fraction with an identified, quantified row is represented
  have hmem : ∀ f, f ∈ S.map (·.fraction) ↔ f ∈ fractionsOf c l k s := by
    intro f
    unfold fractionsOf
    rw [mem_nub]
    constructor
    · intro hf
      obtain ⟨p, hp, rfl⟩ := List.mem_map.mp hf
      obtain ⟨hsel, hin⟩ := List.mem_filter.mp hp
      obtain ⟨⟨hpl, hpk⟩, _⟩ := (mem_selected c l p).mp hsel
      exact List.mem_map.mpr ⟨p, List.mem_filter.mpr ⟨hpl, by simp [hpk, hin]⟩, rfl⟩
    · intro hf
      obtain ⟨q, hq, rfl⟩ := List.mem_map.mp hf
      obtain ⟨hql, hq2⟩ := List.mem_filter.mp hq
      simp only [Bool.and_eq_true] at hq2
      obtain ⟨m, hm, hg⟩ := exists_selected_of_kept c l q hql hq2.1
      rw [sameGroup_iff] at hg
      have hq3 := (inCell_iff k s q).mp hq2.2
      refine List.mem_map.mpr ⟨m, List.mem_filter.mpr ⟨hm, ?_⟩, hg.2.2.2⟩
      rw [inCell_iff]
      refine ⟨?_, hg.2.2.1.trans hq3.2⟩
      rw [← hq3.1, hg.1, hg.2.1]
  have hperm : (S.map (·.fraction)).Perm (fractionsOf c l k s) :=
    (List.perm_ext_iff_of_nodup hnd (nodup_nub _)).mpr hmem
  rw [hcell]
  unfold aggregateFractions
  rw [← (hperm.map (groupBest c l k s)).sum_eq, List.map_map]
  congr 1
  apply List.map_congr_left
  intro p hp
  exact hbest p hp


/-- the total is preserved through the aggregation over fractions: summing `aggregateFractions` over all
    precursors and samples gives the total intensity the LFQ intensities are scaled to -/
theorem sum_aggregateFractions (c : Rat) (l : List Prec) (n : Nat) (hn : ∀ p ∈ l, p.exp < n) :
    ((rowKeys (selected c l)).map (fun k => ((List.range n).map (fun s => aggregateFractions c l k s)).sum)).sum =
      total (selected c l) := by
  rw [← matrix_sum n (selected c l) (fun p hp => hn p ((mem_selected c l p).mp hp).1.1)]
  congr 1
  apply List.map_congr_left
  intro k _
  congr 1
  apply List.map_congr_left
  intro s _
  exact (cell_eq_aggregateFractions c l k s).symm

/-! ### channel names, experiment list -/

theorem silacChannels_spec {C : Nat} {chans : List (List Char)} (h : silacChannels C = some chans) :
    chans.length = C ∧ chans.Nodup ∧ ∀ c ∈ chans, c.length = 1 := by
  rcases C with _ | _ | _ | _ | n
  · simp [silacChannels] at h; subst h; simp
  · simp [silacChannels] at h
  · simp [silacChannels] at h; subst h; decide
  · simp [silacChannels] at h; subst h; decide
  · simp [silacChannels] at h

theorem experimentsOf_nodup (d : Option Design) (rows : List EvRow) : (experimentsOf d rows).Nodup := by
  unfold experimentsOf
  cases d <;> exact nodup_nub _

theorem experiment_names_nodup (d : Option Design) (rows : List EvRow) :
    ((experimentsOf d rows).map String.toList).Nodup :=
  (experimentsOf_nodup d rows).map (fun _ _ h => String.toList_inj.mp h)

end PgFdr.C11
