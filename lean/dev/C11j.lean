import PgFdr.Proofs.C11
namespace PgFdr.C11

theorem Linked.incident_right {eqs : List PairEq} {a b : Nat} (h : Linked eqs a b) (hne : a ≠ b) :
    ∃ q ∈ eqs, q.i = b ∨ q.j = b := by
  induction h with
  | refl => exact absurd rfl hne
  | @tail k l _ hstep _ =>
    obtain ⟨q, hq, h | h⟩ := hstep
    · exact ⟨q, hq, Or.inr h.2⟩
    · exact ⟨q, hq, Or.inl h.1⟩

theorem Linked.symm {eqs : List PairEq} {a b : Nat} (h : Linked eqs a b) : Linked eqs b a := by
  induction h with
  | refl => exact Relation.ReflTransGen.refl
  | @tail k l _ hstep ih =>
    refine Relation.ReflTransGen.head ?_ ih
    obtain ⟨q, hq, h | h⟩ := hstep
    · exact ⟨q, hq, Or.inr h⟩
    · exact ⟨q, hq, Or.inl h⟩

theorem vsum_congr {α : Type} [Zero α] [Add α] (n : Nat) {v w : Nat → α} (h : ∀ s, s < n → v s = w s) :
    vsum n v = vsum n w := by
  unfold vsum
  congr 1
  exact List.map_congr_left (fun s hs => h s (List.mem_range.mp hs))

theorem vsum_pos (n : Nat) (hn : 0 < n) (v : Nat → ℝ) (h : ∀ s, 0 < v s) : 0 < vsum n v := by
  unfold vsum
  cases n with
  | zero => omega
  | succ k =>
    rw [List.range_succ, List.map_append, List.sum_append]
    have : 0 ≤ ((List.range k).map v).sum := by
      apply List.sum_nonneg
      intro x hx; obtain ⟨s, _, rfl⟩ := List.mem_map.mp hx; exact (h s).le
    have := h k
    simp only [List.map_cons, List.map_nil, List.sum_cons, List.sum_nil, add_zero]
    linarith

/-- "… the LFQ intensities are proportional to the sample factors": with all `n ≥ 2` samples linked and
    right-hand sides `log g i − log g j`, any least-squares solution gives `lfq s = total · g s / Σ g` -/
theorem consistent_lfq_aux (n : Nat) (hn : 2 ≤ n) (eqs : List PairEq) (hlt : ∀ q ∈ eqs, q.i < n ∧ q.j < n)
    (g : Nat → ℝ) (hg : ∀ s, 0 < g s) (y : Nat → ℝ)
    (hcons : ∀ q ∈ eqs, rhs q = Real.log (g q.i) - Real.log (g q.j))
    (hls : IsLeastSquares eqs (buildSystem n (eqs.map (fun q => (q.i, q.j)))) y)
    (i0 : Nat) (hi0 : i0 < n) (hconn : ∀ s, s < n → Linked eqs i0 s) (tot : ℝ) (s : Nat) (hs : s < n) :
    lfq n (buildSystem n (eqs.map (fun q => (q.i, q.j)))).zeroCols tot (fun t => Real.exp (y t)) s =
      tot * g s / vsum n g := by
  -- every sample occurs in a pair
  have hinc : ∀ t, t < n → ∃ q ∈ eqs, q.i = t ∨ q.j = t := by
    intro t ht
    by_cases hti : t = i0
    · let u := if i0 = 0 then 1 else 0
      have hu : u < n := by simp only [u]; split <;> omega
      have hne : u ≠ i0 := by simp only [u]; split <;> omega
      have := (hconn u hu).symm.incident_right hne
      rw [hti]; exact this
    · exact (hconn t ht).incident_right (fun h => hti h.symm)
  have hz : (buildSystem n (eqs.map (fun q => (q.i, q.j)))).zeroCols = [] := by
    rw [List.eq_nil_iff_forall_not_mem]
    intro z hz
    rw [mem_zeroCols] at hz
    obtain ⟨q, hq, h⟩ := hinc z hz.1
    have := hz.2 (q.i, q.j) (List.mem_map_of_mem (f := fun q : PairEq => (q.i, q.j)) hq)
    rcases h with h | h
    · exact this.1 h
    · exact this.2 h
  rw [hz]
  -- exp y = K · g
  have hdiff : ∀ t, t < n → y t - y i0 = Real.log (g t) - Real.log (g i0) := by
    intro t ht
    exact consistent_recovery_aux n eqs hlt (fun v => Real.log (g v)) y hcons hls t i0 (hconn t ht).symm
  set K : ℝ := Real.exp (y i0 - Real.log (g i0)) with hK
  have hKpos : 0 < K := Real.exp_pos _
  have hexp : ∀ t, t < n → Real.exp (y t) = K * g t := by
    intro t ht
    have : y t = Real.log (g t) + (y i0 - Real.log (g i0)) := by linarith [hdiff t ht]
    rw [this, Real.exp_add, Real.exp_log (hg t), hK]; ring
  have hzeroed : zeroed ([] : List Nat) (fun t => Real.exp (y t)) = fun t => Real.exp (y t) := by
    funext t; simp [zeroed]
  unfold lfq
  rw [hzeroed]
  have hsum : vsum n (fun t => Real.exp (y t)) = K * vsum n g := by
    rw [vsum_congr n hexp, vsum_mul_left]
  have hgpos : 0 < vsum n g := vsum_pos n (by omega) g hg
  have hpos : 0 < vsum n (fun t => Real.exp (y t)) := by rw [hsum]; exact mul_pos hKpos hgpos
  rw [scaleEqualSum_apply n tot _ hpos s, hsum, hexp s hs]
  field_simp

end PgFdr.C11
