import PgFdr.DriverMain
import PgFdr.Driver.C17
/-! Private single-property driver for development:
    `PGFDR_DRIVER_CMD="lake env lean --run dev/DriverC17.lean" ./check C17`
    (interpreted; lets you work while another property's handler file does not compile). -/
def main : IO Unit := PgFdr.runHandlers PgFdr.Driver.handlersC17
