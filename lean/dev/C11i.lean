import PgFdr.Proofs.C11
import Mathlib.Analysis.SpecialFunctions.Log.Basic
import Mathlib.Logic.Relation
import Mathlib.Tactic.Positivity
namespace PgFdr.C11

/-! ### the linear system -/

theorem isSeen_iff (ps : List (Nat × Nat)) (s : Nat) : isSeen ps s = true ↔ ∃ e ∈ ps, e.1 = s ∨ e.2 = s := by
  simp [isSeen]

theorem mem_seen (n : Nat) (ps : List (Nat × Nat)) (s : Nat) :
    s ∈ (buildSystem n ps).seen ↔ s < n ∧ ∃ e ∈ ps, e.1 = s ∨ e.2 = s := by
  simp [buildSystem, isSeen_iff]

/-- "samples without enough shared peptides": the zero columns are exactly the samples in no valid pair -/
theorem mem_zeroCols (n : Nat) (ps : List (Nat × Nat)) (s : Nat) :
    s ∈ (buildSystem n ps).zeroCols ↔ s < n ∧ ∀ e ∈ ps, e.1 ≠ s ∧ e.2 ≠ s := by
  simp only [buildSystem, List.mem_filter, List.mem_range, Bool.not_eq_true', Bool.eq_false_iff, ne_eq,
    isSeen_iff, not_exists, not_and, not_or]

theorem seen_nodup (n : Nat) (ps : List (Nat × Nat)) : (buildSystem n ps).seen.Nodup :=
  (List.nodup_range).filter _

/-! ### stage B, specified -/

/-- right-hand side of one equation: `w · log(summed-intensity ratio) + (1 - w) · log(median ratio)` -/
noncomputable def rhs (q : PairEq) : ℝ :=
  (q.w : ℝ) * Real.log (q.sratio : ℝ) + (1 - (q.w : ℝ)) * Real.log (q.ratio : ℝ)

/-- the objective `lsqr` minimises for the system of `_buildLinearSystem`: one residual per valid pair,
    the anchor row over the samples that occur in a pair, one row `y z = 0` per other sample -/
noncomputable def objective (eqs : List PairEq) (sys : System) (y : Nat → ℝ) : ℝ :=
  (eqs.map (fun q => (y q.i - y q.j - rhs q) ^ 2)).sum + ((sys.seen.map y).sum) ^ 2 +
    (sys.zeroCols.map (fun z => (y z) ^ 2)).sum

/-- `y` is a least-squares solution (what `scipy.sparse.linalg.lsqr` is specified to return) -/
def IsLeastSquares (eqs : List PairEq) (sys : System) (y : Nat → ℝ) : Prop :=
  ∀ z, objective eqs sys y ≤ objective eqs sys z

/-- samples linked by a chain of valid pairs -/
def Linked (eqs : List PairEq) : Nat → Nat → Prop :=
  Relation.ReflTransGen (fun i j => ∃ q ∈ eqs, (q.i = i ∧ q.j = j) ∨ (q.i = j ∧ q.j = i))

theorem sum_sq_nonneg {β : Type} (l : List β) (f : β → ℝ) : 0 ≤ (l.map (fun q => (f q) ^ 2)).sum := by
  apply List.sum_nonneg
  intro x hx
  obtain ⟨q, _, rfl⟩ := List.mem_map.mp hx
  positivity

theorem sum_sq_eq_zero {β : Type} : ∀ (l : List β) (f : β → ℝ), (l.map (fun q => (f q) ^ 2)).sum = 0 →
    ∀ q ∈ l, f q = 0
  | [], _, _, q, hq => by simp at hq
  | a :: r, f, h, q, hq => by
    simp only [List.map_cons, List.sum_cons] at h
    have h1 : 0 ≤ (f a) ^ 2 := by positivity
    have h2 := sum_sq_nonneg r f
    rcases List.mem_cons.mp hq with rfl | hq
    · have : (f q) ^ 2 = 0 := by linarith
      exact pow_eq_zero_iff (two_ne_zero) |>.mp this
    · exact sum_sq_eq_zero r f (by linarith) q hq

theorem objective_nonneg (eqs : List PairEq) (sys : System) (y : Nat → ℝ) : 0 ≤ objective eqs sys y := by
  unfold objective
  have h1 := sum_sq_nonneg eqs (fun q => y q.i - y q.j - rhs q)
  have h2 := sum_sq_nonneg sys.zeroCols y
  have h3 : 0 ≤ ((sys.seen.map y).sum) ^ 2 := by positivity
  linarith

theorem sum_map_sub_const (m : ℝ) (x : Nat → ℝ) : ∀ l : List Nat,
    (l.map (fun v => x v - m)).sum = (l.map x).sum - (l.length : ℝ) * m
  | [] => by simp
  | a :: r => by
    simp only [List.map_cons, List.sum_cons, List.length_cons, sum_map_sub_const m x r]
    push_cast; ring

/-- C11: if the right-hand sides are consistent with one abundance per sample (`rhs q = x i − x j`),
    every least-squares solution reproduces the differences of `x` between linked samples -/
theorem consistent_recovery_aux (n : Nat) (eqs : List PairEq) (hlt : ∀ q ∈ eqs, q.i < n ∧ q.j < n)
    (x y : Nat → ℝ) (hcons : ∀ q ∈ eqs, rhs q = x q.i - x q.j)
    (hls : IsLeastSquares eqs (buildSystem n (eqs.map (fun q => (q.i, q.j)))) y)
    (i j : Nat) (hij : Linked eqs i j) : y i - y j = x i - x j := by
  set sys := buildSystem n (eqs.map (fun q => (q.i, q.j))) with hsys
  -- the centred truth has zero residual
  let m : ℝ := ((sys.seen.map x).sum) / (sys.seen.length : ℝ)
  let xb : Nat → ℝ := fun v => if v ∈ sys.seen then x v - m else 0
  have hseen : ∀ q ∈ eqs, q.i ∈ sys.seen ∧ q.j ∈ sys.seen := by
    intro q hq
    have := hlt q hq
    constructor
    · rw [hsys, mem_seen]; exact ⟨this.1, (q.i, q.j), List.mem_map_of_mem (f := fun q : PairEq => (q.i, q.j)) hq, Or.inl rfl⟩
    · rw [hsys, mem_seen]; exact ⟨this.2, (q.i, q.j), List.mem_map_of_mem (f := fun q : PairEq => (q.i, q.j)) hq, Or.inr rfl⟩
  have hF0 : objective eqs sys xb = 0 := by
    unfold objective
    have h1 : (eqs.map (fun q => (xb q.i - xb q.j - rhs q) ^ 2)).sum = 0 := by
      apply List.sum_eq_zero
      intro t ht
      obtain ⟨q, hq, rfl⟩ := List.mem_map.mp ht
      have hs := hseen q hq
      simp only [xb, hs.1, hs.2, if_true, hcons q hq]
      ring
    have h2 : (sys.seen.map xb).sum = 0 := by
      have : sys.seen.map xb = sys.seen.map (fun v => x v - m) := by
        apply List.map_congr_left
        intro v hv; simp only [xb, hv, if_true]
      rw [this, sum_map_sub_const]
      by_cases h0 : sys.seen.length = 0
      · have : sys.seen = [] := List.length_eq_zero_iff.mp h0
        simp [this]
      · have hne : (sys.seen.length : ℝ) ≠ 0 := by exact_mod_cast h0
        simp only [m]
        field_simp
        ring
    have h3 : (sys.zeroCols.map (fun z => (xb z) ^ 2)).sum = 0 := by
      apply List.sum_eq_zero
      intro t ht
      obtain ⟨z, hz, rfl⟩ := List.mem_map.mp ht
      have hzn : z ∉ sys.seen := by
        rw [hsys, mem_zeroCols] at hz
        rw [hsys, mem_seen]
        rintro ⟨_, e, he, h⟩
        have := hz.2 e he
        rcases h with h | h
        · exact this.1 h
        · exact this.2 h
      simp only [xb, hzn, if_false]; ring
    rw [h1, h2, h3]; ring
  have hFy : objective eqs sys y = 0 := le_antisymm (hF0 ▸ hls xb) (objective_nonneg _ _ _)
  have hsum : (eqs.map (fun q => (y q.i - y q.j - rhs q) ^ 2)).sum = 0 := by
    unfold objective at hFy
    have h1 := sum_sq_nonneg eqs (fun q => y q.i - y q.j - rhs q)
    have h2 := sum_sq_nonneg sys.zeroCols y
    have h3 : 0 ≤ ((sys.seen.map y).sum) ^ 2 := by positivity
    linarith
  have hedge : ∀ q ∈ eqs, y q.i - y q.j = x q.i - x q.j := by
    intro q hq
    have := sum_sq_eq_zero eqs (fun q => y q.i - y q.j - rhs q) hsum q hq
    rw [hcons q hq] at this
    linarith
  induction hij with
  | refl => ring
  | @tail k l _ hstep ih =>
    obtain ⟨q, hq, h | h⟩ := hstep
    · have := hedge q hq; rw [h.1, h.2] at this; linarith
    · have := hedge q hq; rw [h.1, h.2] at this; linarith

end PgFdr.C11
