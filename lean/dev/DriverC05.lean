import PgFdr.DriverMain
import PgFdr.Driver.C05
/-! Private single-property driver for development:
    `PGFDR_DRIVER_CMD="lake env lean --run dev/DriverC05.lean" ./check C05` -/
def main : IO Unit := PgFdr.runHandlers PgFdr.Driver.handlersC05
