import PgFdr.Proofs.C15
import PgFdr.Proofs.C13
namespace PgFdr.C15

/-! ## Round 5a — the classification of evidence rows (seeded C15-h) -/

/-- "match-between-runs rows" / "MS/MS row[s]", as the code tells them apart
    (`parse_evidence_file_for_percolator_matching`): a row is a match-between-runs row iff its
    scan-number cell is empty (or reads −1, the code's own encoding of "no scan"). -/
theorem isMbrRow_iff (c : Cols) (row : Row) :
    isMbrRow c row = true ↔ ∃ f, row[c.scan]? = some f ∧ (f = "" ∨ parseInt? f.toList = some (-1)) := by
  unfold isMbrRow
  cases h : row[c.scan]? with
  | none => simp
  | some f =>
    simp only [Bool.or_eq_true, beq_iff_eq, Option.some.injEq, exists_eq_left']
    constructor
    · rintro (h | h)
      · left; exact String.isEmpty_iff.mp h
      · right; exact h
    · rintro (h | h)
      · left; exact String.isEmpty_iff.mpr h
      · right; exact h

/-- "every MS/MS row whose raw file, scan number and modified sequence …": what a parsed row hands to the
    lookup is read off exactly these cells — the raw-file cell as it is, the modified-sequence cell
    without its first and last character, and the scan-number cell as an integer; `scan = none`
    exactly for the match-between-runs rows. -/
theorem psm_key_is_the_rows_cells (c : Cols) (row : Row) (p : Psm) (h : psmOf c row = .ok p) :
    row[c.raw]? = some p.raw ∧
    (∃ m, row[c.modSeq]? = some m ∧ p.modSeq = slice 1 1 m) ∧
    (p.scan = none ↔ isMbrRow c row = true) ∧
    (∀ n, p.scan = some n → ∃ f, row[c.scan]? = some f ∧ parseInt? f.toList = some n) := by
  obtain ⟨scanF, pepF, h1, h2, h3, h4, h5, _⟩ := psmOf_ok c row p h
  refine ⟨h3, ⟨pepF, h4, h5⟩, psmOf_scan_none_iff c row p h, ?_⟩
  intro n hn
  rw [hn] at h2
  exact ⟨scanF, h1, (scanOfCell_some _ _ h2).2.1⟩

/-- the `Type` cell (MSMS, MULTI-MSMS, MULTI-SECPEP, MULTI-MATCH, MULTI-MATCH-MSMS, ISO-MSMS, empty,
    anything) plays no part: replacing it changes neither whether the row parses, nor its
    classification, nor its lookup key … -/
theorem classification_ignores_type (hdr row : Row) (c : Cols) (hc : cols (hdr.map lower) = .ok c) (t : String) :
    psmOf c (row.set c.idType t) = psmOf c row ∧ isMbrRow c (row.set c.idType t) = isMbrRow c row := by
  refine ⟨psmOf_set_type _ c hc row t, ?_⟩
  unfold isMbrRow
  rw [List.getElem?_set_ne (cols_type_distinct _ c hc).2.2.2.1]

/-- … and the row is kept, rewritten or dropped exactly as with any other `Type` cell, the output row
    carrying the `Type` cell it came with. -/
theorem row_rule_ignores_type (res : Results) (hdr row : Row) (c : Cols) (hc : cols (hdr.map lower) = .ok c)
    (t : String) :
    rowRule res hdr (row.set c.idType t) = (rowRule res hdr row).map (fun r => r.set c.idType t) := by
  unfold rowRule
  rw [hc]
  simp only
  rw [psmOf_set_type _ c hc row t]
  cases hp : psmOf c row with
  | error e => rfl
  | ok p =>
    obtain ⟨d1, d2, _⟩ := cols_type_distinct _ c hc
    exact rule_set_other res c.score c.pep c.idType t row p d1 d2

/-- "match-between-runs rows pass through unchanged, and MS/MS rows [are rewritten when matched, else]
    dropped": with at least one result row, for every row of a file whose header resolves —
    (1) a match-between-runs row (by the rule above) is written unchanged;
    (2) a row that is NOT a match-between-runs row is either dropped or written with the score and
        PEP cells set to the values of a result row with its (raw file, scan number, modified
        sequence) — it never passes through on its own values;
    (3) so a row is written unchanged iff it is a match-between-runs row, or the last result row with
        its key carries, literally, the score and PEP cells the row already has. -/
theorem passes_unchanged_iff_mbr (resultFiles : List (List ResultRow)) (parsed : List ParsedResult)
    (hparse : resultFiles.flatten.mapM parseResultRow = .ok parsed) (hne : parsed ≠ [])
    (hdr row : Row) (c : Cols) (hc : cols (hdr.map lower) = .ok c) (p : Psm) (hp : psmOf c row = .ok p) :
    (isMbrRow c row = true → rowRule (parsed.foldl insertParsed []) hdr row = some row) ∧
    (isMbrRow c row = false →
      rowRule (parsed.foldl insertParsed []) hdr row = none ∨
      ∃ q ∈ parsed, q.raw = p.raw ∧ some q.scan = p.scan ∧ q.modSeq = p.modSeq ∧
        rowRule (parsed.foldl insertParsed []) hdr row = some ((row.set c.score q.val.1).set c.pep q.val.2)) ∧
    (rowRule (parsed.foldl insertParsed []) hdr row = some row ↔
      isMbrRow c row = true ∨
      ∃ q scan, p.scan = some scan ∧
        parsed.reverse.find? (fun q => decide (q.raw = p.raw ∧ (q.scan, q.modSeq) = (scan, p.modSeq))) = some q ∧
        (row.set c.score q.val.1).set c.pep q.val.2 = row) := by
  have hrr : rowRule (parsed.foldl insertParsed []) hdr row = rule (parsed.foldl insertParsed []) c.score c.pep row p := by
    unfold rowRule; rw [hc]; simp only [hp]
  have hiff := psmOf_scan_none_iff c row p hp
  have hkey := (key_is_scan_and_sequence' resultFiles parsed hparse)
  rw [hrr]
  cases hs : p.scan with
  | none =>
    have hm : isMbrRow c row = true := hiff.mp hs
    have hu := mbr_unchanged' (parsed.foldl insertParsed []) c.score c.pep row p hs
    refine ⟨fun _ => hu, fun hf => by rw [hm] at hf; cases hf, ?_⟩
    constructor
    · intro _; exact Or.inl hm
    · intro _; exact hu
  | some scan =>
    have hm : isMbrRow c row = false := by
      cases hb : isMbrRow c row with
      | false => rfl
      | true => rw [hiff.mpr hb] at hs; cases hs
    have hk := hkey c.score c.pep row p scan hne hs
    rw [hk]
    refine ⟨fun ht => by rw [hm] at ht; cases ht, fun _ => ?_, ?_⟩
    · cases hf : parsed.reverse.find? (fun q => decide (q.raw = p.raw ∧ (q.scan, q.modSeq) = (scan, p.modSeq))) with
      | none => left; rfl
      | some q =>
        right
        have hmem : q ∈ parsed := List.mem_reverse.mp (List.mem_of_find?_eq_some hf)
        have hq := List.find?_some hf
        simp only [Prod.mk.injEq, decide_eq_true_eq] at hq
        exact ⟨q, hmem, hq.1, by rw [hq.2.1], hq.2.2, rfl⟩
    · constructor
      · intro h
        right
        cases hf : parsed.reverse.find? (fun q => decide (q.raw = p.raw ∧ (q.scan, q.modSeq) = (scan, p.modSeq))) with
        | none => rw [hf] at h; cases h
        | some q =>
          rw [hf] at h
          exact ⟨q, scan, rfl, rfl, by simpa using h⟩
      · rintro (h | ⟨q, scan', hs', hf, heq⟩)
        · rw [hm] at h; cases h
        · cases hs'
          rw [hf]; simp [heq]

end PgFdr.C15
