import PgFdr.Proofs.C11
namespace PgFdr.C11

/-! ### median -/

theorem ratLe_total (a b : Rat) : ratLe a b = true ∨ ratLe b a = true := by
  simp only [ratLe, decide_eq_true_eq]; exact le_total a b
theorem ratLe_trans (a b c : Rat) (h1 : ratLe a b = true) (h2 : ratLe b c = true) : ratLe a c = true := by
  simp only [ratLe, decide_eq_true_eq] at *; exact le_trans h1 h2
theorem ratLe_antisymm (a b : Rat) (h1 : ratLe a b = true) (h2 : ratLe b a = true) : a = b := by
  simp only [ratLe, decide_eq_true_eq] at *; exact le_antisymm h1 h2

/-- the median does not depend on the order of the values -/
theorem median_perm {l l' : List Rat} (h : l.Perm l') : median l = median l' := by
  unfold median
  rw [isort_congr ratLe_trans ratLe_total ratLe_antisymm h]

theorem getD_of_all_eq {q : Rat} : ∀ (l : List Rat) (k : Nat), (∀ x ∈ l, x = q) → k < l.length → l.getD k 0 = q
  | [], k, _, hk => by simp at hk
  | a :: r, 0, h, _ => by simpa using h a List.mem_cons_self
  | a :: r, k + 1, h, hk => by
    simp only [List.getD_cons_succ]
    exact getD_of_all_eq r k (fun x hx => h x (List.mem_cons_of_mem _ hx)) (by simpa using hk)

/-- if all values are equal, the median is that value -/
theorem median_const {q : Rat} {l : List Rat} (hne : l ≠ []) (h : ∀ x ∈ l, x = q) : median l = q := by
  unfold median
  have hall : ∀ x ∈ isort ratLe l, x = q := fun x hx => h x ((isort_perm ratLe l).subset hx)
  have hlen : (isort ratLe l).length = l.length := (isort_perm ratLe l).length_eq
  have hpos : 0 < l.length := List.length_pos_iff.mpr hne
  simp only [hlen]
  rw [if_neg (by omega)]
  split
  · exact getD_of_all_eq _ _ hall (by rw [hlen]; omega)
  · rw [getD_of_all_eq _ _ hall (by rw [hlen]; omega), getD_of_all_eq _ _ hall (by rw [hlen]; omega)]
    ring

theorem mem_ratiosOf {ci cj : List Rat} {x : Rat} (h : x ∈ ratiosOf ci cj) :
    ∃ ab ∈ ci.zip cj, ab.1 ≠ 0 ∧ ab.2 ≠ 0 ∧ x = ab.1 / ab.2 := by
  unfold ratiosOf at h
  obtain ⟨ab, hab, hx⟩ := List.mem_filterMap.mp h
  refine ⟨ab, hab, ?_⟩
  split at hx
  · cases hx
  · rename_i hn
    simp only [Bool.or_eq_true, beq_iff_eq, not_or] at hn
    exact ⟨hn.1, hn.2, by simpa using hx.symm⟩

theorem ratiosOf_ne_nil_of_shared {ci cj : List Rat} (h : 0 < shared ci cj) : ratiosOf ci cj ≠ [] := by
  unfold shared at h
  obtain ⟨ab, hab⟩ := List.exists_mem_of_length_pos h
  rw [List.mem_filter] at hab
  obtain ⟨hmem, hpos⟩ := hab
  simp only [Bool.and_eq_true, decide_eq_true_eq] at hpos
  intro hnil
  have : ab.1 / ab.2 ∈ ratiosOf ci cj := by
    unfold ratiosOf
    refine List.mem_filterMap.mpr ⟨ab, hmem, ?_⟩
    have h1 : ab.1 ≠ 0 := ne_of_gt hpos.1
    have h2 : ab.2 ≠ 0 := ne_of_gt hpos.2
    simp [h1, h2]
  rw [hnil] at this
  exact absurd this (by simp)

/-- consistent data: if every peptide quantified in both samples has the same ratio `q`, the median
    ratio of a valid pair is `q` -/
theorem ratio_of_consistent {col : Nat → List Rat} {i j : Nat} {q : Rat} (hsh : 0 < shared (col i) (col j))
    (h : ∀ ab ∈ (col i).zip (col j), ab.1 ≠ 0 → ab.2 ≠ 0 → ab.1 / ab.2 = q) : ratio col i j = q := by
  unfold ratio
  apply median_const (ratiosOf_ne_nil_of_shared hsh)
  intro x hx
  obtain ⟨ab, hab, h1, h2, rfl⟩ := mem_ratiosOf hx
  exact h ab hab h1 h2

end PgFdr.C11
