import PgFdr.Proofs.C11
open PgFdr.C11
def tR : List Row := [
  ⟨⟨"PEPA", 2, 0, 1, 12, some (1/1000)⟩, [4, 8]⟩, ⟨⟨"PEPA", 2, 0, 2, 18, some (1/1000)⟩, [6, 12]⟩,
  ⟨⟨"PEPA", 2, 1, 1, 120, some (1/1000)⟩, [40, 80]⟩, ⟨⟨"PEPB", 2, 0, 1, 90, some (1/1000)⟩, [30, 60]⟩,
  ⟨⟨"PEPB", 2, 1, 1, 360, none⟩, [120, 240]⟩, ⟨⟨"PEPB", 2, 0, 1, 9, some (1/10000)⟩, [3, 6]⟩,
  ⟨⟨"PEPC", 2, 0, 1, 50, some (1/2)⟩, [20, 30]⟩]
def tO : Opts := { n := 2, cutoff := 1/100, minRatios := 2, stab := false, graph := none, minSamples := 10 }
#eval tableStageA tO 2 tR
#eval (namedColumns [['L'], ['H']] ["liver".toList, "brain".toList] (fun s => s)).map (fun x => (String.ofList x.1, x.2))
#eval aggregateFractions (1/100) (tR.map Row.base) ("PEPA", 2) 0
#eval experimentsOf none [⟨"P", 2, "r1", "liver", -1, 1, [], none⟩, ⟨"P", 2, "r2", "brain", -1, 1, [], none⟩, ⟨"P", 2, "r1", "liver", -1, 1, [], none⟩]
