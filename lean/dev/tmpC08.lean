import PgFdr.Props.C08
open PgFdr.C08
def prot : Fasta := [("P1", ['M','A','K','C','C','C','C','C','K','A','A','R'])]
def o1 : CliOpts := { enzyme := some ["trypsin"], minLength := some [2], cleavages := some [1], containsDecoys := true }
#eval cliMain o1 [prot] true true true
#eval cliMain {o1 with cleavages := some [0]} [prot] false true false
#eval paramsList (argLists o1)
#eval (match runBlocks [prot] [.ibaq, .map] ([mkParams {enzyme := some "trypsin", minLength := some 2, cleavages := some 1, containsDecoys := some true}], {}) with | .ok st => st.2.map | .error _ => none)
#eval paramsList (argLists { enzyme := some ["trypsin", "lys-n"], cleavages := some [0], minLength := some [1, 2] })
#eval paramsList (argLists { enzyme := some ["trypsin", "lys-n"], cleavages := some [0, 1, 2] })
