import PgFdr.Proofs.C11
namespace PgFdr.C11

theorem sameGroup_iff (a b : Prec) : sameGroup a b = true ↔
    a.peptide = b.peptide ∧ a.charge = b.charge ∧ a.exp = b.exp ∧ a.fraction = b.fraction := by
  simp [sameGroup, and_assoc]

theorem sameGroup_refl (a : Prec) : sameGroup a a = true := by simp [sameGroup_iff]
theorem sameGroup_symm {a b : Prec} (h : sameGroup a b = true) : sameGroup b a = true := by
  rw [sameGroup_iff] at *; exact ⟨h.1.symm, h.2.1.symm, h.2.2.1.symm, h.2.2.2.symm⟩
theorem sameGroup_trans {a b c : Prec} (h1 : sameGroup a b = true) (h2 : sameGroup b c = true) :
    sameGroup a c = true := by
  rw [sameGroup_iff] at *
  exact ⟨h1.1.trans h2.1, h1.2.1.trans h2.2.1, h1.2.2.1.trans h2.2.2.1, h1.2.2.2.trans h2.2.2.2⟩

/-- order of the group keys -/
def GLE (a b : Prec) : Prop :=
  LexStep a.peptide b.peptide (LexStep a.charge b.charge (LexStep a.exp b.exp (LexStep a.fraction b.fraction True)))

theorem GLE_of_precLe {a b : Prec} (h : precLe a b = true) : GLE a b := by
  rw [precLe_iff] at h
  rcases h with h | ⟨e1, h | ⟨e2, h | ⟨e3, h | ⟨e4, _⟩⟩⟩⟩
  · exact Or.inl h
  · exact Or.inr ⟨e1, Or.inl h⟩
  · exact Or.inr ⟨e1, Or.inr ⟨e2, Or.inl h⟩⟩
  · exact Or.inr ⟨e1, Or.inr ⟨e2, Or.inr ⟨e3, Or.inl h⟩⟩⟩
  · exact Or.inr ⟨e1, Or.inr ⟨e2, Or.inr ⟨e3, Or.inr ⟨e4, trivial⟩⟩⟩⟩

theorem GLE_antisymm {a b : Prec} (h1 : GLE a b) (h2 : GLE b a) : sameGroup a b = true := by
  obtain ⟨e1, h1, h2⟩ := LexStep.antisymm h1 h2
  obtain ⟨e2, h1, h2⟩ := LexStep.antisymm h1 h2
  obtain ⟨e3, h1, h2⟩ := LexStep.antisymm h1 h2
  obtain ⟨e4, _, _⟩ := LexStep.antisymm h1 h2
  rw [sameGroup_iff]; exact ⟨e1, e2, e3, e4⟩

theorem GLE_congr_left {a c b : Prec} (h : sameGroup a c = true) (hab : GLE a b) : GLE c b := by
  rw [sameGroup_iff] at h
  obtain ⟨e1, e2, e3, e4⟩ := h
  unfold GLE at *
  rw [← e1, ← e2, ← e3, ← e4]; exact hab

/-- members of one group are contiguous in sorted order -/
theorem sameGroup_between {a b c : Prec} (hab : precLe a b = true) (hbc : precLe b c = true)
    (hac : sameGroup a c = true) : sameGroup a b = true := by
  have h1 : GLE c b := GLE_congr_left hac (GLE_of_precLe hab)
  have h2 : sameGroup b c = true := GLE_antisymm (GLE_of_precLe hbc) h1
  exact sameGroup_trans hac (sameGroup_symm h2)

theorem mem_firstsAux : ∀ (L : List Prec) (prev : Option Prec),
    L.Pairwise (fun x y => precLe x y = true) →
    (∀ q, prev = some q → ∀ x ∈ L, precLe q x = true) → ∀ p,
    (p ∈ firstsAux prev L ↔ p ∈ L ∧ (∀ q, prev = some q → sameGroup q p = false) ∧
      ∀ x ∈ L, sameGroup p x = true → precLe p x = true)
  | [], prev, _, _, p => by cases prev <;> simp [firstsAux]
  | a :: r, prev, hs, hprev, p => by
    rw [List.pairwise_cons] at hs
    have hrec := mem_firstsAux r (some a) hs.2 (by intro q hq x hx; cases hq; exact hs.1 x hx) p
    have take : (∀ q, prev = some q → sameGroup q a = false) →
        (p ∈ a :: firstsAux (some a) r ↔ p ∈ a :: r ∧ (∀ q, prev = some q → sameGroup q p = false) ∧
          ∀ x ∈ a :: r, sameGroup p x = true → precLe p x = true) := by
      intro hna
      rw [List.mem_cons, hrec]
      constructor
      · rintro (hpa | ⟨hp, hnp, hmin⟩)
        · rw [hpa]
          refine ⟨List.mem_cons_self, hna, ?_⟩
          intro x hx _
          rcases List.mem_cons.mp hx with hxa | hx
          · rw [hxa]; rcases precLe_total a a with h | h <;> exact h
          · exact hs.1 x hx
        · refine ⟨List.mem_cons_of_mem _ hp, ?_, ?_⟩
          · intro q hq
            by_contra hc
            have hc : sameGroup q p = true := by simpa using hc
            have := sameGroup_between (hprev q hq a List.mem_cons_self) (hs.1 p hp) hc
            rw [hna q hq] at this; exact absurd this (by simp)
          · intro x hx hpx
            rcases List.mem_cons.mp hx with hxa | hx
            · have := hnp a rfl
              rw [hxa] at hpx
              rw [sameGroup_symm hpx] at this; exact absurd this (by simp)
            · exact hmin x hx hpx
      · rintro ⟨hp, hnp, hmin⟩
        rcases List.mem_cons.mp hp with hpa | hp
        · exact Or.inl hpa
        · by_cases hap : sameGroup a p = true
          · left
            exact precLe_antisymm _ _ (hmin a List.mem_cons_self (sameGroup_symm hap)) (hs.1 p hp)
          · right
            refine ⟨hp, ?_, fun x hx => hmin x (List.mem_cons_of_mem _ hx)⟩
            intro q hq; cases hq; simpa using hap
    cases prev with
    | none =>
      simp only [firstsAux]
      exact take (by intro q hq; cases hq)
    | some q =>
      simp only [firstsAux]
      by_cases hqa : sameGroup q a = true
      · simp only [hqa, if_true]
        have hrec' := mem_firstsAux r (some q) hs.2
          (by intro q' hq' x hx; cases hq'; exact hprev q rfl x (List.mem_cons_of_mem _ hx)) p
        rw [hrec']
        constructor
        · rintro ⟨hp, hnp, hmin⟩
          refine ⟨List.mem_cons_of_mem _ hp, hnp, ?_⟩
          intro x hx hpx
          rcases List.mem_cons.mp hx with hxa | hx
          · have := hnp q rfl
            rw [hxa] at hpx
            rw [sameGroup_trans hqa (sameGroup_symm hpx)] at this; exact absurd this (by simp)
          · exact hmin x hx hpx
        · rintro ⟨hp, hnp, hmin⟩
          rcases List.mem_cons.mp hp with hpa | hp
          · have := hnp q rfl; rw [hpa, hqa] at this; exact absurd this (by simp)
          · exact ⟨hp, hnp, fun x hx => hmin x (List.mem_cons_of_mem _ hx)⟩
      · simp only [hqa]
        apply take
        intro q' hq'; cases hq'; simpa using hqa

end PgFdr.C11
