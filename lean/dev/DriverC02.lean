import PgFdr.DriverMain
import PgFdr.Driver.C02
/-! Private single-property driver for development (C02 / C14). -/
def main : IO Unit := PgFdr.runHandlers PgFdr.Driver.handlersC02
