import PgFdr.Proofs.C11
namespace PgFdr.C11

/-! ### the total is the sum of the matrix -/

theorem sum_indicator {β : Type} [DecidableEq β] (x : Rat) (a : β) : ∀ (K : List β), K.Nodup → a ∈ K →
    (K.map (fun k => if k = a then x else 0)).sum = x
  | [], _, h => by simp at h
  | b :: r, hnd, h => by
    rw [List.nodup_cons] at hnd
    simp only [List.map_cons, List.sum_cons]
    by_cases hba : b = a
    · have hz : (r.map (fun k => if k = a then x else 0)).sum = 0 := by
        apply List.sum_eq_zero
        intro t ht
        obtain ⟨k, hk, rfl⟩ := List.mem_map.mp ht
        have : k ≠ a := fun e => hnd.1 (hba ▸ e ▸ hk)
        simp [this]
      simp [hba, hz]
    · have ha : a ∈ r := by
        rcases List.mem_cons.mp h with h | h
        · exact absurd h.symm hba
        · exact h
      simp [hba, sum_indicator x a r hnd.2 ha]

theorem sum_map_add {β : Type} (f g : β → Rat) : ∀ l : List β,
    (l.map (fun k => f k + g k)).sum = (l.map f).sum + (l.map g).sum
  | [] => by simp
  | a :: r => by simp only [List.map_cons, List.sum_cons, sum_map_add f g r]; ring

theorem cell_cons (p : Prec) (r : List Prec) (k : String × Int) (s : Nat) :
    cell (p :: r) k s = (if (p.peptide, p.charge) = k ∧ p.exp = s then p.intensity else 0) + cell r k s := by
  unfold cell
  simp only [List.filter_cons]
  by_cases h : (p.peptide, p.charge) = k ∧ p.exp = s
  · simp [h]
  · have : ((p.peptide, p.charge) == k && p.exp == s) = false := by
      rw [Bool.eq_false_iff]; intro hc; apply h; simpa using hc
    simp [this, h]

theorem matrix_sum_aux (n : Nat) (K : List (String × Int)) (hK : K.Nodup) : ∀ sel : List Prec,
    (∀ p ∈ sel, (p.peptide, p.charge) ∈ K ∧ p.exp < n) →
    (K.map (fun k => ((List.range n).map (fun s => cell sel k s)).sum)).sum = total sel
  | [], _ => by
    have : ∀ k s, cell [] k s = 0 := fun k s => rfl
    simp [this, total]
  | p :: r, h => by
    have hp := h p List.mem_cons_self
    have ih := matrix_sum_aux n K hK r (fun q hq => h q (List.mem_cons_of_mem _ hq))
    simp only [cell_cons, sum_map_add]
    rw [ih]
    have h1 : ∀ k, ((List.range n).map
        (fun s => if (p.peptide, p.charge) = k ∧ p.exp = s then p.intensity else 0)).sum =
        if k = (p.peptide, p.charge) then p.intensity else 0 := by
      intro k
      by_cases hk : k = (p.peptide, p.charge)
      · subst hk
        simp only [true_and, if_true]
        have : (fun s => if p.exp = s then p.intensity else (0 : Rat)) = fun s => if s = p.exp then p.intensity else 0 := by
          funext s; by_cases e : s = p.exp <;> simp [e, eq_comm]
        rw [this]
        exact sum_indicator p.intensity p.exp _ List.nodup_range (List.mem_range.mpr hp.2)
      · have hk' : ¬ (p.peptide, p.charge) = k := fun e => hk e.symm
        simp [hk, hk']
    simp only [h1]
    rw [sum_indicator p.intensity _ K hK hp.1]
    simp [total]

theorem mem_rowKeys (sel : List Prec) (k : String × Int) :
    k ∈ rowKeys sel ↔ ∃ p ∈ sel, (p.peptide, p.charge) = k := by
  unfold rowKeys
  rw [mem_nub, (isort_perm keyLe _).mem_iff, List.mem_map]

/-- the total intensity is the sum of all entries of the intensity matrix (samples `< n`) -/
theorem matrix_sum (n : Nat) (sel : List Prec) (hn : ∀ p ∈ sel, p.exp < n) :
    ((rowKeys sel).map (fun k => ((List.range n).map (fun s => cell sel k s)).sum)).sum = total sel :=
  matrix_sum_aux n (rowKeys sel) (nodup_nub _) sel
    (fun p hp => ⟨(mem_rowKeys sel _).mpr ⟨p, hp, rfl⟩, hn p hp⟩)

end PgFdr.C11
