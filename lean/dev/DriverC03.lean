import PgFdr.DriverMain
import PgFdr.Driver.C03
/-! Private single-property driver for development (C03). -/
def main : IO Unit := PgFdr.runHandlers PgFdr.Driver.handlersC03
